#!/bin/bash
# usage: revertrun.sh [commit...]   For every fix recorded in fixes.tsv (or the given ones): reverse-apply
# that one commit in a scratch worktree of /repo HEAD and run the quick checks of the properties it is
# recorded under. Nothing in /repo or /verif/evidence is touched. Prints one line per (fix, property).
set -u
export GOFLAGS=-mod=mod GOPROXY=off
S=/tmp/rv; W=$S/wt
rm -rf $S; mkdir -p $S
git -C /repo worktree prune
git -C /repo worktree add -q --detach $W HEAD || exit 2
trap 'git -C /repo worktree remove --force $W; git -C /repo worktree prune; rm -rf $S' EXIT
while IFS=$'\t' read -r c props what; do
  [ -z "$c" ] && continue
  if [ $# -gt 0 ] && ! echo " $* " | grep -q " $c "; then continue; fi
  git -C $W checkout -q -- . ; git -C $W clean -fdq
  if ! git -C /repo diff $c $c^ -- . ':!*_test.go' | git -C $W apply --3way 2>/dev/null; then
    git -C $W checkout -q -- . ; git -C $W reset -q --hard HEAD
    echo "$c $props: reverse patch does not apply cleanly at HEAD (later fixes touch the same lines)"; continue
  fi
  git -C $W reset -q  # unstage what --3way staged
  if ! (cd $W && go build ./... >/dev/null 2>&1); then echo "$c $props: reverted tree does not build"; git -C $W checkout -q -- .; continue; fi
  for id in ${props//,/ }; do
    out=$(cd /verif && VERIF_REPO=$W VERIF_BUILD=$S/build VERIF_OUT=$S/out ./check $id quick 2>&1); rc=$?
    echo "$c $id rc=$rc $(echo "$out" | grep -c '^VIOLATION') violation line(s): $(echo "$out" | grep 'violation' | head -1 | cut -c1-200)"
  done
  git -C $W checkout -q -- .
done < /verif/fixes.tsv
