#!/usr/bin/env python3
import json,sys
d=json.load(open(sys.argv[1]))
for v in d.get('violations',[]): print(v[:2500])
print(json.dumps(d['case'],indent=None)[:int(sys.argv[2]) if len(sys.argv)>2 else 1500])
