#!/bin/bash
# usage: seeded_sweep.sh [id...]   runs every stored seeded change against the checks recorded as catching it
# (scratch worktree of /repo HEAD each time); prints one line per change: OK (all recorded checks still
# catch it), MISS (some no longer do), or NOAPPLY (the patch no longer applies at HEAD).
D="$(cd "$(dirname "$0")" && pwd)"
for M in "$D"/seeded/*/; do
  id=$(basename "$M")
  if [ $# -gt 0 ] && ! echo " $* " | grep -q " $id "; then continue; fi
  checks=$(python3 -c "import json;print(' '.join(json.load(open('$M/meta.json')).get('caught_by_quick',[])))")
  if ! git -C /repo apply --check "$M/patch.diff" 2>/dev/null; then echo "$id NOAPPLY"; continue; fi
  out=$("$D/mutrun.sh" "$M/patch.diff" quick $checks 2>&1)
  miss=$(echo "$out" | awk '$3!="rc=1"{print $1":"$3}' | tr '\n' ' ')
  if [ -z "$miss" ]; then echo "$id OK ($checks)"; else echo "$id MISS $miss| $(echo "$out" | tr '\n' '|' | cut -c1-300)"; fi
done
