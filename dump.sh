#!/bin/sh
# usage: ./dump.sh <replay.json>   (development aid: prints the whole exchange)
F="$(readlink -f "$1")"
cd /verif/.build && VERIF_REPLAY_FILES="$F" ./bench.test -test.run '^TestDump$' -test.v 2>&1 | grep -v '^=== RUN\|^--- PASS\|^PASS'
