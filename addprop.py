#!/usr/bin/env python3
"""usage: addprop.py ID Test level quick_checks thorough_checks 'technique' 'level_text' [extra python dict literal for P kwargs]"""
import sys
pid,test,level,q,th,tech,text=sys.argv[1:8]
extra=sys.argv[8] if len(sys.argv)>8 else ''
s=open('props.py').read()
entry='''    "%s": P("%s", "%s",
             {"checks": %s, "timeout": 300},
             {"checks": %s, "shards": 16, "timeout": 1800},
             assumptions=COMMON_ASSUME%s),
}

TRUST =''' % (pid,test,level,q,th,(', '+extra) if extra else '')
s=s.replace('}\n\nTRUST =',entry,1)
meta='''    "%s": {
        "technique": %r,
        "level_text": %r,
        "level_note": TRUST,
    },
}
''' % (pid,tech,text)
assert s.rstrip().endswith('}')
s=s.rstrip()[:-1]+meta
open('props.py','w').write(s)
