#!/bin/bash
# usage: mutrun.sh <patch.diff> <tier> <prop>...
# Applies a seeded change to a scratch worktree of /repo HEAD and runs the named checks against it
# (VERIF_REPO/VERIF_BUILD/VERIF_OUT redirected), so neither /repo nor /verif/evidence is touched.
# MUTRUN_INPLACE=1 applies it to /repo itself instead (git apply ... ; checks ; git checkout -- .).
P="$1"; T="$2"; shift; shift
if [ -n "${MUTRUN_INPLACE:-}" ]; then
  cd /repo || exit 2
  if [ -n "$(git status --porcelain)" ]; then echo "/repo not clean"; exit 2; fi
  git apply "$P" || { echo "patch does not apply"; exit 2; }
  for id in "$@"; do
    out=$(cd /verif && ./check $id $T 2>&1); rc=$?
    echo "  $id $T rc=$rc $(echo "$out" | grep -c '^VIOLATION') violation line(s): $(echo "$out" | grep 'violation' | head -1 | cut -c1-260)"
  done
  git -C /repo checkout -- .
  [ -z "$(git -C /repo status --porcelain)" ] || echo "WARNING /repo dirty"
  exit 0
fi
S=$(mktemp -d /tmp/mr.XXXXXX); W=$S/wt
git -C /repo worktree add -q --detach $W HEAD || exit 2
trap 'git -C /repo worktree remove --force $W; git -C /repo worktree prune; rm -rf $S' EXIT
git -C $W apply "$P" || { echo "patch does not apply"; exit 2; }
for id in "$@"; do
  out=$(cd "$(dirname "$0")" && VERIF_REPO=$W VERIF_BUILD=$S/build VERIF_OUT=$S/out ./check $id $T 2>&1); rc=$?
  echo "  $id $T rc=$rc $(echo "$out" | grep -c '^VIOLATION') violation line(s): $(echo "$out" | grep 'violation' | head -1 | cut -c1-260)"
done
