#!/bin/bash
# usage: mutrun.sh <patch.diff> <tier> <prop>...   applies a seeded change to /repo, runs the checks, reverts.
P="$1"; T="$2"; shift; shift
cd /repo || exit 2
if [ -n "$(git status --porcelain)" ]; then echo "/repo not clean"; exit 2; fi
git apply "$P" || { echo "patch does not apply"; exit 2; }
for id in "$@"; do
  out=$(cd /verif && ./check $id $T 2>&1); rc=$?
  echo "  $id $T rc=$rc $(echo "$out" | grep -c '^VIOLATION') violation line(s): $(echo "$out" | grep 'violation' | head -1 | cut -c1-260)"
done
git -C /repo checkout -- .
[ -z "$(git -C /repo status --porcelain)" ] || echo "WARNING /repo dirty"
