#!/bin/bash
# usage: mutbatch.sh <ID> [extra props...]   verifies every candidate /tmp/mut/<ID>-out/m* in the scratch
# worktree /tmp/mut/<ID> and runs the quick check of <ID> (and of the extra props) against each.
ID="$1"; shift
for M in /tmp/mut/$ID-out/m*; do
  [ -f "$M/patch.diff" ] || continue
  r=$(/verif/mutverify.sh "$M" /tmp/mut/$ID 2>&1 | tail -1)
  echo "$r"
  case "$r" in *"build=0 suite_with_patch=0 demo_on_clean=0 demo_with_patch=1"*) ;; *) echo "  -> not confirmed, skipped"; continue;; esac
  /verif/mutrun.sh "$M/patch.diff" quick $ID "$@"
done
