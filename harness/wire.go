package verifbench

// Reference wire layer, part 1: framing, compression, codecs, the error model
// and the code tables. Written from the protocol specifications (DESIGN.md
// appendix A); shares no code with package vanguard and does not use
// connect-go or grpc-go.

import (
	"bytes"
	"compress/gzip"
	"compress/zlib"
	"encoding/base64"
	"encoding/binary"
	"encoding/json"
	"errors"
	"fmt"
	"io"
	"net/http"
	"sort"
	"strconv"
	"strings"

	"google.golang.org/genproto/googleapis/rpc/status"
	"google.golang.org/protobuf/encoding/protojson"
	"google.golang.org/protobuf/encoding/prototext"
	"google.golang.org/protobuf/proto"
	"google.golang.org/protobuf/reflect/protoreflect"
	"google.golang.org/protobuf/reflect/protoregistry"
	"google.golang.org/protobuf/types/known/anypb"
)

// ---- protocols / forms ------------------------------------------------------

const (
	FormConnectUnary  = "connect_unary"
	FormConnectGet    = "connect_get"
	FormConnectStream = "connect_stream"
	FormGRPC          = "grpc"
	FormGRPCWeb       = "grpcweb"
	FormREST          = "rest"
)

var allForms = []string{FormConnectUnary, FormConnectGet, FormConnectStream, FormGRPC, FormGRPCWeb, FormREST}

const (
	ProtoConnect = "connect"
	ProtoGRPC    = "grpc"
	ProtoGRPCWeb = "grpcweb"
	ProtoREST    = "rest"
)

var allProtos = []string{ProtoConnect, ProtoGRPC, ProtoGRPCWeb, ProtoREST}

func formProtocol(form string) string {
	switch form {
	case FormConnectUnary, FormConnectGet, FormConnectStream:
		return ProtoConnect
	case FormGRPC:
		return ProtoGRPC
	case FormGRPCWeb:
		return ProtoGRPCWeb
	}
	return ProtoREST
}

func formEnveloped(form string) bool {
	return form == FormConnectStream || form == FormGRPC || form == FormGRPCWeb
}

// ---- envelopes --------------------------------------------------------------

type Frame struct {
	Flags   byte   `json:"flags"`
	Payload []byte `json:"payload"`
	InBand  bool   `json:"-"` // parsed out of an enveloped stream (as opposed to a whole un-enveloped body)
}

func appendFrame(dst []byte, flags byte, payload []byte) []byte {
	var hdr [5]byte
	hdr[0] = flags
	binary.BigEndian.PutUint32(hdr[1:], uint32(len(payload)))
	dst = append(dst, hdr[:]...)
	return append(dst, payload...)
}

// parseFrames splits data into complete frames. A trailing incomplete frame
// is reported through the error; the complete ones are still returned.
func parseFrames(data []byte) ([]Frame, error) {
	var out []Frame
	for len(data) > 0 {
		if len(data) < 5 {
			return out, fmt.Errorf("stream ends inside an envelope prefix (%d of 5 bytes)", len(data))
		}
		n := binary.BigEndian.Uint32(data[1:5])
		if uint64(len(data)-5) < uint64(n) {
			return out, fmt.Errorf("stream ends inside a payload (%d of %d bytes)", len(data)-5, n)
		}
		out = append(out, Frame{Flags: data[0], Payload: append([]byte(nil), data[5:5+n]...), InBand: true})
		data = data[5+n:]
	}
	return out, nil
}

// ---- compression ------------------------------------------------------------

const (
	CompGzip    = "gzip"
	CompDeflate = "deflate" // registered through WithCompression by the bench
)

func compressBytes(name string, data []byte) []byte {
	var buf bytes.Buffer
	switch name {
	case CompGzip:
		w := gzip.NewWriter(&buf)
		_, _ = w.Write(data)
		_ = w.Close()
	case CompDeflate:
		w := zlib.NewWriter(&buf)
		_, _ = w.Write(data)
		_ = w.Close()
	default:
		panic("verifbench: compressBytes: unknown compression " + name)
	}
	return buf.Bytes()
}

var errUnknownCompression = errors.New("unknown compression")

// decompressBytes inflates data. A zero-length input is accepted as the empty
// payload: with nothing to decode, "Content-Encoding: x" over zero bytes is
// handled the same by every HTTP stack we know of (lenient by design, see
// DESIGN.md appendix B).
func decompressBytes(name string, data []byte) ([]byte, error) {
	if len(data) == 0 && (name == CompGzip || name == CompDeflate) {
		return []byte{}, nil
	}
	return decompressFrame(name, data)
}

// decompressFrame is the strict reading used for the payload of an envelope whose compressed flag is
// set: the payload has to be a complete stream of the declared compression. Zero bytes are not
// (grpc-go, for one, answers "failed to decompress the message: EOF").
func decompressFrame(name string, data []byte) ([]byte, error) {
	switch name {
	case CompGzip:
		r, err := gzip.NewReader(bytes.NewReader(data))
		if err != nil {
			return nil, err
		}
		r.Multistream(true)
		out, err := io.ReadAll(r)
		if err != nil {
			return nil, err
		}
		return out, r.Close()
	case CompDeflate:
		r, err := zlib.NewReader(bytes.NewReader(data))
		if err != nil {
			return nil, err
		}
		out, err := io.ReadAll(r)
		if err != nil {
			return nil, err
		}
		return out, r.Close()
	}
	return nil, errUnknownCompression
}

// zlib adapters satisfying connect.Compressor / connect.Decompressor shapes.
type zlibDecomp struct{ r io.ReadCloser }

func (z *zlibDecomp) Read(p []byte) (int, error) {
	if z.r == nil {
		return 0, io.EOF
	}
	return z.r.Read(p)
}
func (z *zlibDecomp) Close() error {
	if z.r == nil {
		return nil
	}
	return z.r.Close()
}
func (z *zlibDecomp) Reset(r io.Reader) error {
	if z.r != nil {
		if rs, ok := z.r.(zlib.Resetter); ok {
			return rs.Reset(r, nil)
		}
	}
	nr, err := zlib.NewReader(r)
	if err != nil {
		return err
	}
	z.r = nr
	return nil
}

// ---- codecs -----------------------------------------------------------------

const (
	CodecProto = "proto"
	CodecJSON  = "json"
	CodecText  = "text" // registered through WithCodec by the bench; not a StableCodec
)

type JSONStyle struct {
	ProtoNames      bool `json:"proto_names,omitempty"`
	EmitUnpopulated bool `json:"emit_unpopulated,omitempty"`
	EnumNumbers     bool `json:"enum_numbers,omitempty"`
	Indent          bool `json:"indent,omitempty"`
}

func encodeMsg(codec string, style JSONStyle, m proto.Message) ([]byte, error) {
	switch codec {
	case CodecProto:
		return proto.MarshalOptions{Deterministic: true}.Marshal(m)
	case CodecJSON:
		o := protojson.MarshalOptions{UseProtoNames: style.ProtoNames, EmitUnpopulated: style.EmitUnpopulated, UseEnumNumbers: style.EnumNumbers}
		if style.Indent {
			o.Indent = "  "
		}
		return o.Marshal(m)
	case CodecText:
		return prototext.Marshal(m)
	}
	return nil, fmt.Errorf("unknown codec %q", codec)
}

func decodeMsg(codec string, data []byte, typeName string) (proto.Message, error) {
	m := newMessage(typeName)
	var err error
	switch codec {
	case CodecProto:
		err = proto.Unmarshal(data, m)
	case CodecJSON:
		// strict: the reference decoder does not discard unknown fields
		err = protojson.Unmarshal(data, m)
	case CodecText:
		err = prototext.Unmarshal(data, m)
	default:
		err = fmt.Errorf("unknown codec %q", codec)
	}
	if err != nil {
		return nil, err
	}
	return m, nil
}

// decodeMsgLenient: like decodeMsg but JSON discards unknown fields, which is the
// documented default of vanguard's JSON codec; used to decide "must fail".
func decodeMsgLenient(codec string, data []byte, typeName string) (proto.Message, error) {
	if codec != CodecJSON {
		return decodeMsg(codec, data, typeName)
	}
	m := newMessage(typeName)
	if err := (protojson.UnmarshalOptions{DiscardUnknown: true}).Unmarshal(data, m); err != nil {
		return nil, err
	}
	return m, nil
}

// canon returns a canonical byte form of a message for equality: deterministic
// binary encoding (distinguishes -0 from 0, map order independent).
func canon(m proto.Message) string {
	if m == nil {
		return "<nil>"
	}
	m = proto.Clone(m)
	dropNullValues(m.ProtoReflect())
	b, err := proto.MarshalOptions{Deterministic: true}.Marshal(m)
	if err != nil {
		return "<marshal error: " + err.Error() + ">"
	}
	return string(b)
}

// canonKnown is canon without unknown fields (at any depth): JSON legs cannot carry them and
// the properties do not ask for it. Used where the compared messages come from arbitrary
// (fuzzer-made) bytes that may hold unknown field numbers.
func canonKnown(m proto.Message) string {
	if m == nil {
		return "<nil>"
	}
	m = proto.Clone(m)
	stripUnknown(m.ProtoReflect())
	return canon(m)
}

func stripUnknown(m protoreflect.Message) {
	m.SetUnknown(nil)
	m.Range(func(fd protoreflect.FieldDescriptor, v protoreflect.Value) bool {
		switch {
		case fd.IsMap():
			if fd.MapValue().Message() != nil {
				v.Map().Range(func(_ protoreflect.MapKey, mv protoreflect.Value) bool {
					stripUnknown(mv.Message())
					return true
				})
			}
		case fd.IsList():
			if fd.Message() != nil {
				for i := 0; i < v.List().Len(); i++ {
					stripUnknown(v.List().Get(i).Message())
				}
			}
		case fd.Message() != nil:
			stripUnknown(v.Message())
		}
		return true
	})
}

func canonBytes(typeName string, protoBytes []byte) string {
	m := newMessage(typeName)
	if err := proto.Unmarshal(protoBytes, m); err != nil {
		return "<bad:" + err.Error() + ">"
	}
	return canon(m)
}

func msgJSON(m proto.Message) string {
	if m == nil {
		return "null"
	}
	b, err := protojson.Marshal(m)
	if err != nil {
		return fmt.Sprintf("<%v>", err)
	}
	var c bytes.Buffer
	if json.Compact(&c, b) == nil {
		b = c.Bytes()
	}
	if len(b) > 600 {
		return string(b[:600]) + "..."
	}
	return string(b)
}

// ---- code tables (written out independently; DESIGN.md appendix A) -----------

var codeNames = map[int64]string{
	1: "canceled", 2: "unknown", 3: "invalid_argument", 4: "deadline_exceeded", 5: "not_found",
	6: "already_exists", 7: "permission_denied", 8: "resource_exhausted", 9: "failed_precondition",
	10: "aborted", 11: "out_of_range", 12: "unimplemented", 13: "internal", 14: "unavailable",
	15: "data_loss", 16: "unauthenticated",
}

func codeName(c int64) string {
	if n, ok := codeNames[c]; ok {
		return n
	}
	return "code_" + strconv.FormatInt(c, 10)
}

func codeFromName(s string) (int64, bool) {
	for k, v := range codeNames {
		if v == s {
			return k, true
		}
	}
	if strings.HasPrefix(s, "code_") {
		n, err := strconv.ParseUint(s[5:], 10, 32)
		if err == nil {
			return int64(n), true
		}
	}
	return 0, false
}

// httpStatusForCode: Connect unary and REST (google.rpc.Code) agree.
var httpStatusForCode = map[int64]int{
	1: 499, 2: 500, 3: 400, 4: 504, 5: 404, 6: 409, 7: 403, 8: 429, 9: 400, 10: 409,
	11: 400, 12: 501, 13: 500, 14: 503, 15: 500, 16: 401,
}

// codeForHTTPStatus: for responses that carry no protocol-level status.
func codeForHTTPStatus(st int) int64 {
	switch st {
	case 400:
		return 13
	case 401:
		return 16
	case 403:
		return 7
	case 404:
		return 12
	case 429, 502, 503, 504:
		return 14
	}
	return 2
}

// ---- error model ------------------------------------------------------------

type Detail struct {
	Type  string `json:"type"` // fully-qualified message name, no URL prefix
	Value []byte `json:"value"`
	// URLPrefix: what precedes the name in the Any type URL where the protocol carries one (gRPC, REST);
	// "" means the usual "type.googleapis.com/". The Connect error format carries the bare name only.
	URLPrefix string `json:"url_prefix,omitempty"`
}

func (d Detail) typeURL() string {
	if d.URLPrefix != "" {
		return d.URLPrefix + d.Type
	}
	return "type.googleapis.com/" + d.Type
}

// anyTypeName: the message name of an Any type URL is what follows its last slash.
func anyTypeName(url string) string {
	if i := strings.LastIndexByte(url, '/'); i >= 0 {
		return url[i+1:]
	}
	return url
}

type ErrSpec struct {
	Code    int64    `json:"code"`
	Message string   `json:"message"`
	Details []Detail `json:"details,omitempty"`
}

func (e *ErrSpec) String() string {
	if e == nil {
		return "OK"
	}
	return fmt.Sprintf("{code=%d msg=%q details=%d}", e.Code, e.Message, len(e.Details))
}

func (e *ErrSpec) statusProto() *status.Status {
	st := &status.Status{Code: int32(e.Code), Message: e.Message}
	for _, d := range e.Details {
		st.Details = append(st.Details, &anypb.Any{TypeUrl: d.typeURL(), Value: d.Value})
	}
	return st
}

// gRPC percent-encoding of grpc-message (PROTOCOL-HTTP2.md): bytes outside
// 0x20-0x7E and '%' are escaped.
func grpcMessageEncode(s string) string {
	var sb strings.Builder
	for i := 0; i < len(s); i++ {
		c := s[i]
		if c >= 0x20 && c <= 0x7e && c != '%' {
			sb.WriteByte(c)
		} else {
			fmt.Fprintf(&sb, "%%%02X", c)
		}
	}
	return sb.String()
}

func grpcMessageDecode(s string) (string, bool) {
	var sb strings.Builder
	for i := 0; i < len(s); i++ {
		if s[i] != '%' {
			sb.WriteByte(s[i])
			continue
		}
		if i+2 > len(s)-1 {
			return "", false
		}
		v, err := strconv.ParseUint(s[i+1:i+3], 16, 8)
		if err != nil {
			return "", false
		}
		sb.WriteByte(byte(v))
		i += 2
	}
	return sb.String(), true
}

func b64Any(s string) ([]byte, error) {
	s = strings.TrimRight(s, "=")
	if strings.ContainsAny(s, "-_") {
		return base64.RawURLEncoding.DecodeString(s)
	}
	return base64.RawStdEncoding.DecodeString(s)
}

// grpcTrailersFor renders an outcome as gRPC status metadata.
func grpcTrailersFor(e *ErrSpec, padded bool) http.Header {
	h := http.Header{}
	if e == nil {
		h.Set("Grpc-Status", "0")
		return h
	}
	h.Set("Grpc-Status", strconv.FormatInt(e.Code, 10))
	if e.Message != "" {
		h.Set("Grpc-Message", grpcMessageEncode(e.Message))
	}
	if len(e.Details) > 0 {
		b, _ := proto.Marshal(e.statusProto())
		if padded {
			h.Set("Grpc-Status-Details-Bin", base64.StdEncoding.EncodeToString(b))
		} else {
			h.Set("Grpc-Status-Details-Bin", base64.RawStdEncoding.EncodeToString(b))
		}
	}
	return h
}

// parseGRPCStatus reads grpc-status/-message/-details-bin from h (trailers,
// trailer frame or trailers-only headers).
func parseGRPCStatus(h http.Header) (present bool, e *ErrSpec, problems []string) {
	sts := h.Values("Grpc-Status")
	if len(sts) == 0 {
		return false, nil, nil
	}
	if len(sts) > 1 {
		problems = append(problems, fmt.Sprintf("grpc-status appears %d times: %q", len(sts), sts))
	}
	if n := len(h.Values("Grpc-Message")); n > 1 {
		problems = append(problems, fmt.Sprintf("grpc-message appears %d times", n))
	}
	code, err := strconv.ParseUint(sts[0], 10, 32)
	if err != nil {
		problems = append(problems, fmt.Sprintf("grpc-status %q is not a decimal code", sts[0]))
		return true, &ErrSpec{Code: -1}, problems
	}
	if code == 0 {
		return true, nil, problems
	}
	e = &ErrSpec{Code: int64(code)}
	msg, ok := grpcMessageDecode(h.Get("Grpc-Message"))
	if !ok {
		problems = append(problems, "grpc-message is not validly percent-encoded")
	}
	e.Message = msg
	if d := h.Get("Grpc-Status-Details-Bin"); d != "" {
		raw, err := b64Any(d)
		if err != nil {
			problems = append(problems, "grpc-status-details-bin is not base64: "+err.Error())
			return true, e, problems
		}
		var st status.Status
		if err := proto.Unmarshal(raw, &st); err != nil {
			problems = append(problems, "grpc-status-details-bin is not a google.rpc.Status: "+err.Error())
			return true, e, problems
		}
		if int64(st.GetCode()) != e.Code {
			problems = append(problems, fmt.Sprintf("grpc-status %d disagrees with details-bin code %d", e.Code, st.GetCode()))
		}
		// header field values cannot carry leading/trailing whitespace: compare modulo OWS
		if strings.TrimSpace(st.GetMessage()) != strings.TrimSpace(e.Message) {
			problems = append(problems, fmt.Sprintf("grpc-message %q disagrees with details-bin message %q", e.Message, st.GetMessage()))
		}
		for _, a := range st.GetDetails() {
			e.Details = append(e.Details, Detail{Type: anyTypeName(a.GetTypeUrl()), Value: a.GetValue()})
		}
	}
	return true, e, problems
}

// Connect error JSON.
type connectErrJSON struct {
	Code    string             `json:"code"`
	Message string             `json:"message,omitempty"`
	Details []connectDetailJSN `json:"details,omitempty"`
}
type connectDetailJSN struct {
	Type  string          `json:"type"`
	Value string          `json:"value"`
	Debug json.RawMessage `json:"debug,omitempty"`
}

func connectErrorJSONFor(e *ErrSpec) []byte {
	j := connectErrJSON{Code: codeName(e.Code), Message: e.Message}
	for _, d := range e.Details {
		j.Details = append(j.Details, connectDetailJSN{Type: d.Type, Value: base64.RawStdEncoding.EncodeToString(d.Value)})
	}
	b, _ := json.Marshal(j)
	return b
}

func parseConnectErrorJSON(raw json.RawMessage) (*ErrSpec, []string) {
	var problems []string
	var j connectErrJSON
	if err := json.Unmarshal(raw, &j); err != nil {
		return nil, []string{"connect error is not valid JSON: " + err.Error()}
	}
	code, ok := codeFromName(j.Code)
	if !ok {
		problems = append(problems, fmt.Sprintf("connect error code %q is not a known code name", j.Code))
		code = -1
	}
	if code == 0 {
		problems = append(problems, "connect error carries code 0")
	}
	e := &ErrSpec{Code: code, Message: j.Message}
	for _, d := range j.Details {
		v, err := b64Any(d.Value)
		if err != nil {
			problems = append(problems, "connect error detail value is not base64")
		}
		e.Details = append(e.Details, Detail{Type: d.Type, Value: v})
	}
	return e, problems
}

type connectEndJSON struct {
	Error    json.RawMessage     `json:"error,omitempty"`
	Metadata map[string][]string `json:"metadata,omitempty"`
}

// REST error JSON (google.rpc.Status); details need resolvable types.
func restErrorJSONFor(e *ErrSpec) ([]byte, error) {
	return protojson.Marshal(e.statusProto())
}

func parseRESTErrorJSON(body []byte) (*ErrSpec, []string) {
	var st status.Status
	if err := (protojson.UnmarshalOptions{DiscardUnknown: false}).Unmarshal(body, &st); err != nil {
		return nil, []string{"REST error body is not a google.rpc.Status JSON: " + err.Error()}
	}
	e := &ErrSpec{Code: int64(st.GetCode()), Message: st.GetMessage()}
	for _, a := range st.GetDetails() {
		e.Details = append(e.Details, Detail{Type: anyTypeName(a.GetTypeUrl()), Value: a.GetValue()})
	}
	return e, nil
}

// detailResolvable reports whether a detail's type can be rendered as JSON Any.
func detailResolvable(d Detail) bool {
	mt, err := protoregistry.GlobalTypes.FindMessageByName(protoreflect.FullName(d.Type))
	if err != nil {
		return false
	}
	return proto.Unmarshal(d.Value, mt.New().Interface()) == nil
}

// ---- header helpers ---------------------------------------------------------

type KV struct {
	K string `json:"k"`
	V string `json:"v"`
}

func kvHeader(kvs []KV) http.Header {
	h := http.Header{}
	for _, kv := range kvs {
		h.Add(kv.K, kv.V)
	}
	return h
}

// splitList splits comma-separated header values across repeated headers.
func splitList(vals []string) []string {
	var out []string
	for _, v := range vals {
		for _, p := range strings.Split(v, ",") {
			p = strings.TrimSpace(p)
			if p != "" {
				out = append(out, p)
			}
		}
	}
	return out
}

func headerString(h http.Header) string {
	keys := make([]string, 0, len(h))
	for k := range h {
		keys = append(keys, k)
	}
	sort.Strings(keys)
	var sb strings.Builder
	for _, k := range keys {
		fmt.Fprintf(&sb, "%s=%q ", k, h[k])
	}
	return sb.String()
}

func contains(list []string, s string) bool {
	for _, x := range list {
		if x == s {
			return true
		}
	}
	return false
}

// dropNullValues clears singular google.protobuf.Value fields holding JSON
// null: with unpopulated fields emitted, protojson cannot distinguish an
// absent Value field from null (library behaviour, outside the properties).
func dropNullValues(m protoreflect.Message) {
	m.Range(func(fd protoreflect.FieldDescriptor, v protoreflect.Value) bool {
		if fd.Kind() != protoreflect.MessageKind {
			return true
		}
		switch {
		case fd.IsMap():
			if fd.MapValue().Kind() == protoreflect.MessageKind {
				v.Map().Range(func(_ protoreflect.MapKey, mv protoreflect.Value) bool {
					dropNullValues(mv.Message())
					return true
				})
			}
		case fd.IsList():
			for i := 0; i < v.List().Len(); i++ {
				dropNullValues(v.List().Get(i).Message())
			}
		default:
			sub := v.Message()
			if sub.Descriptor().FullName() == "google.protobuf.Value" {
				if od := sub.WhichOneof(sub.Descriptor().Oneofs().ByName("kind")); od != nil && od.Name() == "null_value" {
					m.Clear(fd)
				}
				return true
			}
			dropNullValues(sub)
		}
		return true
	})
}
