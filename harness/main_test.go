package verifbench

import (
	"encoding/json"
	"os"
	"strings"
	"testing"
)

func TestMain(m *testing.M) {
	if f := os.Getenv("VERIF_SELFTEST_DIE_ONCE"); f != "" {
		// self-test of the driver's handling of a worker that dies without a verdict
		if _, err := os.Stat(f); err != nil {
			_ = os.WriteFile(f, []byte("died"), 0o644)
			os.Exit(2)
		}
	}
	code := m.Run()
	stats.write()
	os.Exit(code)
}

// ---- replay entry point -------------------------------------------------------------

func TestReplay(t *testing.T) {
	files := strings.Split(os.Getenv("VERIF_REPLAY_FILES"), "\n")
	prop := os.Getenv("VERIF_PROP")
	pd := props[prop]
	if pd == nil {
		t.Skipf("no property %q", prop)
	}
	stats.Replay = map[string]replayResult{}
	for _, f := range files {
		if f == "" {
			continue
		}
		b, err := os.ReadFile(f)
		if err != nil {
			t.Errorf("cannot read %s: %v", f, err)
			continue
		}
		var ff failFile
		if err := json.Unmarshal(b, &ff); err != nil || len(ff.Case) == 0 {
			// a bare case
			ff.Case = b
		}
		res, err := pd.Replay(ff.Case)
		if err != nil {
			t.Errorf("cannot decode case in %s: %v", f, err)
			continue
		}
		fresh, known := classify(prop, res.Violations)
		rr := replayResult{Known: known, Violations: []string{}}
		for _, v := range fresh {
			rr.Violations = append(rr.Violations, v.String())
			t.Logf("%s: %s", f, v)
		}
		if rr.Known == nil {
			rr.Known = []string{}
		}
		stats.Replay[f] = rr
	}
}
