package verifbench

import (
	"encoding/json"
	"fmt"
	"net/http"
	"sort"
	"strings"
	"testing"

	"google.golang.org/protobuf/proto"
	"pgregory.net/rapid"
)

// C08 - results do not depend on how bytes are split across reads, writes, flushes.

const ruleC08 = "rapid draws a base Scenario (C01/C03 generator: all pairings, OK/error/trailers-only/bare-HTTP backends) and a segmentation: client body delivered in arbitrary Read results (incl. 1 byte at a time, (n,EOF) vs (n,nil)+(0,EOF)), handler read buffers of 1..8 bytes (cycled lists), response split at arbitrary offsets into Write calls with interleaved Flush and empty writes, explicit or implicit WriteHeader. Oracle (metamorphic): handler-observed request bytes/messages and the canonical client outcome equal those of the same scenario with one Read/one Write. Non-trivial = a read buffer < 5 bytes or a cut inside an envelope/payload; distinct by hash(scenario, segmentation)."

type segCase struct {
	Base Scenario `json:"base"`
	Seg  Scenario `json:"segmented"`
}

func init() {
	registerProp(&propDef{ID: "C08", Rule: ruleC08, Replay: func(raw json.RawMessage) (*CheckResult, error) {
		var c segCase
		if err := json.Unmarshal(raw, &c); err != nil {
			return nil, err
		}
		return checkC08(&c), nil
	}})
}

func cloneScenario(sc *Scenario) *Scenario {
	b, _ := json.Marshal(sc)
	var out Scenario
	_ = json.Unmarshal(b, &out)
	return &out
}

func genSegmentation(t *rapid.T, sc *Scenario) {
	c, b := &sc.Client, &sc.Backend
	switch rapid.IntRange(0, 4).Draw(t, "read_mode") {
	case 0:
		c.ReadChunk = rapid.IntRange(1, 7).Draw(t, "read_chunk")
	case 1:
		c.ReadSplits = rapid.SliceOfN(rapid.IntRange(1, 9), 1, 14).Draw(t, "read_splits")
	case 2:
		c.ReadSplits = rapid.SliceOfN(rapid.IntRange(1, 9), 1, 6).Draw(t, "read_splits")
		c.ReadChunk = rapid.IntRange(1, 40).Draw(t, "read_chunk")
	}
	c.EOFWithData = rapid.Bool().Draw(t, "eof_with_data")
	switch rapid.IntRange(0, 3).Draw(t, "buf_mode") {
	case 0:
		b.ReadBuf = []int{rapid.IntRange(1, 6).Draw(t, "read_buf1")}
	case 1:
		b.ReadBuf = rapid.SliceOfN(rapid.IntRange(1, 8), 1, 5).Draw(t, "read_bufs")
	case 2:
		b.ReadBuf = []int{rapid.SampledFrom([]int{5, 6, 7, 9, 10, 11, 64, 512}).Draw(t, "read_buf_mid")}
	}
	switch rapid.IntRange(0, 4).Draw(t, "write_mode") {
	case 0:
		b.WriteChunk = rapid.IntRange(1, 7).Draw(t, "write_chunk")
	case 1:
		b.WriteSplits = rapid.SliceOfN(rapid.IntRange(1, 9), 1, 14).Draw(t, "write_splits")
	case 2:
		b.WriteSplits = rapid.SliceOfN(rapid.IntRange(1, 9), 1, 6).Draw(t, "write_splits")
		b.WriteChunk = rapid.IntRange(1, 40).Draw(t, "write_chunk")
	}
	b.FlushEvery = rapid.IntRange(0, 3).Draw(t, "flush_every")
	b.EmptyWrites = rapid.IntRange(0, 2).Draw(t, "empty_writes") == 0
	b.ExplicitHead = rapid.Bool().Draw(t, "explicit_head")
}

func TestC08(t *testing.T) {
	enumerateC08(t)
	rapid.Check(t, func(t *rapid.T) {
		o := genOpts{maxBlob: 16, backendKinds: []string{"ok", "ok", "ok", "ok", "error", "trailers_only", "http_status"}}
		base := genScenario(t, o)
		base.Client.ReadSplits, base.Client.ReadChunk, base.Client.EOFWithData = nil, 0, false
		base.Backend.ReadBuf, base.Backend.WriteSplits, base.Backend.WriteChunk, base.Backend.FlushEvery, base.Backend.EmptyWrites = nil, nil, 0, 0, false
		seg := cloneScenario(base)
		genSegmentation(t, seg)
		c := &segCase{Base: *base, Seg: *seg}
		judge(t, "C08", c, checkC08(c))
	})
}

type canonOutcome struct {
	Status   int
	Outcome  string
	ErrMsg   string
	Msgs     []string
	Headers  string
	Trailers string
	Problems int
}

func sortedHeader(h http.Header) string {
	keys := make([]string, 0, len(h))
	for k := range h {
		keys = append(keys, k)
	}
	sort.Strings(keys)
	var sb strings.Builder
	for _, k := range keys {
		fmt.Fprintf(&sb, "%s=%q;", k, h[k])
	}
	return sb.String()
}

func canonMsgs(ms []proto.Message) []string {
	out := make([]string, len(ms))
	for i, m := range ms {
		out[i] = canon(m)
	}
	return out
}

// canonicalClient: the comparison form of a client outcome. Texts of
// transcoder-generated errors are not compared (DESIGN 2.1), only codes.
func canonicalClient(sc *Scenario, out *Outcome) canonOutcome {
	cv := out.Client
	co := canonOutcome{Status: cv.Status, Outcome: cv.outcome(), Msgs: canonMsgs(cv.Msgs), Headers: sortedHeader(cv.Headers), Trailers: sortedHeader(cv.Trailers), Problems: len(cv.Problems)}
	if cv.Err != nil && sc.Backend.Err != nil && cv.Err.Message == sc.Backend.Err.Message {
		co.ErrMsg = cv.Err.Message
	}
	return co
}

func (a canonOutcome) diff(b canonOutcome) []string {
	var d []string
	if a.Status != b.Status {
		d = append(d, fmt.Sprintf("HTTP status %d vs %d", a.Status, b.Status))
	}
	if a.Outcome != b.Outcome {
		d = append(d, fmt.Sprintf("outcome %s vs %s", a.Outcome, b.Outcome))
	}
	if a.ErrMsg != b.ErrMsg {
		d = append(d, fmt.Sprintf("error message %q vs %q", a.ErrMsg, b.ErrMsg))
	}
	if len(a.Msgs) != len(b.Msgs) {
		d = append(d, fmt.Sprintf("%d messages vs %d", len(a.Msgs), len(b.Msgs)))
	} else {
		for i := range a.Msgs {
			if a.Msgs[i] != b.Msgs[i] {
				d = append(d, fmt.Sprintf("message %d differs", i))
			}
		}
	}
	if a.Headers != b.Headers {
		d = append(d, fmt.Sprintf("headers %s vs %s", a.Headers, b.Headers))
	}
	if a.Trailers != b.Trailers {
		d = append(d, fmt.Sprintf("trailers %s vs %s", a.Trailers, b.Trailers))
	}
	if a.Problems != b.Problems {
		d = append(d, fmt.Sprintf("%d protocol problems vs %d", a.Problems, b.Problems))
	}
	return d
}

func segNonTrivial(sc *Scenario) bool {
	c, b := &sc.Client, &sc.Backend
	if c.ReadChunk > 0 || len(c.ReadSplits) > 0 || b.WriteChunk > 0 || len(b.WriteSplits) > 0 {
		return true
	}
	for _, n := range b.ReadBuf {
		if n < 5 {
			return true
		}
	}
	return false
}

func checkC08(c *segCase) *CheckResult {
	res := &CheckResult{}
	o1 := runScenario(&c.Base)
	if o1.BuildErr != "" || o1.ConfigErr != "" {
		res.Skipped = true
		return res
	}
	o2 := runScenario(&c.Seg)
	if o2.BuildErr != "" || o2.ConfigErr != "" {
		res.Skipped = true
		return res
	}
	if panicViolation(res, o1) || panicViolation(res, o2) {
		return res
	}
	ct := clientTriple(&c.Base.Client, o1.Sent)
	bt := o1.Backend.triple()
	path := "passthrough"
	if ct != bt {
		path = "convert"
	}
	res.class("form=%s target=%s path=%s kind=%s", c.Base.Client.Form, strings.SplitN(bt, "+", 2)[0], path, c.Base.Backend.Kind)
	res.NonTrivial = segNonTrivial(&c.Seg) && ct != bt
	segDesc := fmt.Sprintf("rs=%v rc=%d eof=%v rb=%v ws=%v wc=%d fl=%d ew=%v eh=%v", c.Seg.Client.ReadSplits, c.Seg.Client.ReadChunk, c.Seg.Client.EOFWithData,
		c.Seg.Backend.ReadBuf, c.Seg.Backend.WriteSplits, c.Seg.Backend.WriteChunk, c.Seg.Backend.FlushEvery, c.Seg.Backend.EmptyWrites, c.Seg.Backend.ExplicitHead)
	res.Key = fmt.Sprintf("%s|%s|%x|%x|%s|%s", ct, bt, c.Base.Client.Msgs, c.Base.Backend.Msgs, c.Base.Backend.Kind, segDesc)
	res.Sample = map[string]any{"client": ct, "backend": bt, "kind": c.Base.Backend.Kind, "segmentation": segDesc, "outcome": o1.Client.outcome()}
	// request side
	v1, v2 := o1.Backend, o2.Backend
	if (v1 == nil) != (v2 == nil) {
		res.violate("dispatch_differs", "c08:dispatch", "handler invoked in one run only (base %v, segmented %v)", v1 != nil, v2 != nil)
		return res
	}
	if v1 != nil {
		if v1.triple() != v2.triple() {
			res.violate("request_differs", "c08:request", "backend triple %s vs %s", v1.triple(), v2.triple())
		}
		if string(v1.Body) != string(v2.Body) {
			// Re-encoded payloads may legitimately differ in bytes between two runs (unordered
			// field/map iteration of dynamic messages, then compression): compare structure and
			// decoded messages. Paths that only re-frame must preserve the payload bytes.
			preserve := c.Base.Client.Codec == v1.Codec && effectiveCompression(&c.Base.Client, o1.Sent) == v1.Compression &&
				c.Base.Client.Form != FormREST && c.Base.Client.Form != FormConnectGet && v1.Protocol != ProtoREST && v1.Sub != "get"
			m1, m2 := canonMsgs(v1.Msgs), canonMsgs(v2.Msgs)
			switch {
			case len(v1.Frames) != len(v2.Frames) || len(v1.Msgs) != len(v2.Msgs):
				res.violate("request_bytes", "c08:request", "handler read %d bytes / %d messages in the base run and %d bytes / %d messages with segmentation %s (read error base %q, segmented %q)",
					len(v1.Body), len(v1.Msgs), len(v2.Body), len(v2.Msgs), segDesc, v1.ReadErr, v2.ReadErr)
			case strings.Join(m1, "|") != strings.Join(m2, "|"):
				res.violate("request_bytes", "c08:request", "handler decoded different request messages with segmentation %s", segDesc)
			case fmt.Sprint(v1.Compressed) != fmt.Sprint(v2.Compressed):
				res.violate("request_bytes", "c08:request", "frame flags differ with segmentation %s: %v vs %v", segDesc, v1.Compressed, v2.Compressed)
			case preserve:
				res.violate("request_bytes", "c08:request", "re-framing path delivered different bytes with segmentation %s (%d vs %d bytes)", segDesc, len(v1.Body), len(v2.Body))
			}
		}
		if (v1.ReadErr == "") != (v2.ReadErr == "") {
			res.violate("request_error", "c08:request", "Body.Read error %q vs %q under segmentation %s", v1.ReadErr, v2.ReadErr, segDesc)
		}
		if len(v1.Problems) != len(v2.Problems) {
			res.violate("request_validity", "c08:request", "backend-side problems %v vs %v", v1.Problems, v2.Problems)
		}
	}
	// response side
	for _, d := range canonicalClient(&c.Base, o1).diff(canonicalClient(&c.Seg, o2)) {
		res.violate("response_differs", "c08:response", "client outcome depends on segmentation %s: %s", segDesc, d)
	}
	return res
}
