package verifbench

import (
	"connectrpc.com/vanguard"
	"runtime/pprof"
	"encoding/json"
	"fmt"
	"os"
	"testing"
)

// TestDump prints the full exchange of one scenario file (development aid):
// VERIF_REPLAY_FILES=<file> bench.test -test.run TestDump -test.v
func TestDump(t *testing.T) {
	f := os.Getenv("VERIF_REPLAY_FILES")
	if f == "" {
		t.Skip("no file")
	}
	b, err := os.ReadFile(f)
	if err != nil {
		t.Fatal(err)
	}
	var ff failFile
	if err := json.Unmarshal(b, &ff); err != nil || len(ff.Case) == 0 {
		ff.Case = b
	}
	var sc Scenario
	var wrapped struct {
		Scenario *Scenario `json:"scenario"`
		Seg      *Scenario `json:"segmented"`
	}
	if json.Unmarshal(ff.Case, &wrapped) == nil && (wrapped.Scenario != nil || wrapped.Seg != nil) {
		// cases of several properties embed the scenario
		if wrapped.Scenario != nil {
			sc = *wrapped.Scenario
		} else {
			sc = *wrapped.Seg
		}
	} else if err := json.Unmarshal(ff.Case, &sc); err != nil {
		t.Fatal(err)
	}
	if os.Getenv("VERIF_DUMP_POISON") != "" {
		vanguard.VerifPoolEnable(true, os.Getenv("VERIF_DUMP_POISON") == "fifo")
		defer vanguard.VerifPoolDisable()
	}
	out := runScenario(&sc)
	fmt.Printf("BuildErr=%q ConfigErr=%q Panic=%q\n", out.BuildErr, out.ConfigErr, out.Panic)
	if out.Hang {
		fmt.Println("HANG: ServeHTTP did not return; goroutines:")
		_ = pprof.Lookup("goroutine").WriteTo(os.Stdout, 2)
	}
	if out.Sent != nil {
		fmt.Printf("REQUEST %s %s\n  headers=%v\n  body(%d)=%q\n", out.Sent.Method, out.Sent.Target, out.Sent.Header, len(out.Sent.Body), trunc(out.Sent.Body))
	}
	if v := out.Backend; v != nil {
		fmt.Printf("BACKEND saw %s %s?%s proto=%s\n  headers=%s\n  body(%d)=%q readErr=%q\n  triple=%s problems=%v\n", v.Snap.Method, v.EscapedPath, v.Snap.RawQuery, v.Snap.Proto, headerString(v.Header), len(v.Body), trunc(v.Body), v.ReadErr, v.triple(), v.Problems)
		for i, m := range v.Msgs {
			fmt.Printf("  msg[%d]=%s\n", i, msgJSON(m))
		}
	} else {
		fmt.Printf("BACKEND not invoked (unknown calls=%d)\n", out.UnknownCalls)
	}
	if out.Rec != nil {
		fmt.Printf("RESPONSE status=%d\n  head=%s\n  trailers=%s\n  body(%d)=%q\n  events=%v anomalies=%v\n", out.Rec.Status, headerString(out.Rec.Head), headerString(out.Trailers), out.Rec.Body.Len(), trunc(out.Rec.Body.Bytes()), out.Rec.Events, out.Rec.Anomalies)
	}
	if cv := out.Client; cv != nil {
		fmt.Printf("CLIENT outcome=%s err=%s ends=%d problems=%v incomplete=%q\n", cv.outcome(), cv.Err, cv.Ends, cv.Problems, cv.Incomplete)
		for i, m := range cv.Msgs {
			fmt.Printf("  msg[%d]=%s\n", i, msgJSON(m))
		}
	}
}

func trunc(b []byte) []byte {
	if len(b) > 400 {
		return b[:400]
	}
	return b
}
