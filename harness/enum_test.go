package verifbench

// Deterministic, complete enumerations of small finite sub-spaces. They run before the random
// search of the property they belong to, through the same check function and the same
// known-finding filter, and are reported in the evidence under "enumerated_subspaces" (the run as
// a whole stays a sampled exploration: exhaustive=false).
//
// Processes of a sharded run split a family round-robin; the quick tier runs the slice
// VERIF_SEED mod quickSlices of the larger families.

import (
	"fmt"
	"os"
	"strconv"
	"strings"
	"testing"

	"pgregory.net/rapid"
)

func envInt(name string, def int) int {
	if v, err := strconv.Atoi(os.Getenv(name)); err == nil {
		return v
	}
	return def
}

// enumerate runs cases 0..n-1 of a family (those that belong to this process).
// slices > 1: only the cases with i % slices == VERIF_SEED % slices are run in the quick tier.
func enumerate(t *testing.T, prop, name, describe string, n, quickSlices int, at func(i int) (any, *CheckResult)) {
	shard, shards := envInt("VERIF_SHARD", 0), envInt("VERIF_SHARDS", 1)
	if shards < 1 {
		shards = 1
	}
	slice, slices := 0, 1
	if os.Getenv("VERIF_TIER") != "thorough" && quickSlices > 1 {
		slices = quickSlices
		slice = envInt("VERIF_SEED", 1) % slices
	}
	ran := 0
	for i := 0; i < n; i++ {
		if i%shards != shard || (i/shards)%slices != slice {
			continue
		}
		c, res := at(i)
		if res == nil {
			continue
		}
		ran++
		judge(t, prop, c, res)
	}
	stats.addExtra("enumerated:"+name+":cases_run", ran)
	stats.mu.Lock()
	stats.Extra["enumerated:"+name+":family"] = fmt.Sprintf("%s; %d cases in the family, complete over all processes of a thorough run, slice 1/%d of it in a quick run", describe, n, maxInt(quickSlices, 1))
	stats.mu.Unlock()
}

func maxInt(a, b int) int {
	if a > b {
		return a
	}
	return b
}

// exampleScenario returns the first deterministic example of the generator that satisfies want.
func exampleScenario(o genOpts, want func(*Scenario) bool) *Scenario {
	gen := rapid.Custom(func(t *rapid.T) *Scenario { return genScenario(t, o) })
	for seed := 1; seed < 400; seed++ {
		sc := gen.Example(seed)
		if want == nil || want(sc) {
			return sc
		}
	}
	return nil
}

// ---- C12: the full grid of boundary timeouts -------------------------------------------

func pow10(k int) string { return "1" + strings.Repeat("0", k) }

func gridTimeouts(proto string) []string {
	var out []string
	switch proto {
	case ProtoGRPC:
		for _, u := range grpcUnits {
			out = append(out, "0"+u, "00000001"+u, "00000000"+u)
			for d := 1; d <= 8; d++ {
				out = append(out, pow10(d-1)+u, strings.Repeat("9", d)+u)
			}
		}
	case ProtoConnect:
		out = append(out, "0", "0000000001")
		for d := 1; d <= 10; d++ {
			out = append(out, pow10(d-1), strings.Repeat("9", d))
		}
		// around the unit switches of the gRPC encoding and the 8 hour threshold
		out = append(out, "99999999", "100000000", "100000001", "28800000", "28800001", "28799999", "5999999999", "6000000000")
	default: // REST: decimal seconds
		out = append(out, "0", "0.0", "0.000000001", "0.000001", "0.001", "0.0005", "0.0015", "0.999999999", "1.000000001", "1.001", "1.5",
			"99999.999", "99999.9995", "99999999", "99999999.999", "100000000", "28800", "28799.999999999", "28800.000000001", "3599.9999", "360000",
			"9999999.999999999", "0.100000000", "59.9994", "59.9996")
		for d := 1; d <= 10; d++ {
			out = append(out, pow10(d-1), strings.Repeat("9", d))
		}
	}
	return out
}

type c12GridCase struct {
	form, target, timeout string
}

func c12Grid() []c12GridCase {
	var out []c12GridCase
	for _, form := range allForms {
		p := formProtocol(form)
		if p == ProtoGRPCWeb {
			p = ProtoGRPC
		}
		for _, target := range allProtos {
			for _, to := range gridTimeouts(p) {
				out = append(out, c12GridCase{form, target, to})
			}
		}
	}
	return out
}

func enumerateC12(t *testing.T) {
	grid := c12Grid()
	bases := map[string]*Scenario{}
	for _, form := range allForms {
		form := form
		bases[form] = exampleScenario(genOpts{maxBlob: 4, noText: true, forms: []string{form}, methods: []string{"Unary", "UnaryGet", "Params"}},
			func(sc *Scenario) bool { return sc.Client.Form == form && len(sc.Client.Msgs) == 1 })
	}
	enumerate(t, "C12", "timeout_grid",
		"every client form x every single target protocol x all digit-count and unit-switch boundary values of the client's timeout encoding (10^(d-1) and 10^d-1 for every digit count and unit, zero, leading zeros, the 8 hour threshold, REST decimals around rounding boundaries)",
		len(grid), 1, func(i int) (any, *CheckResult) {
			g := grid[i]
			base := bases[g.form]
			if base == nil {
				return nil, nil
			}
			sc := cloneScenario(base)
			sc.Config.Protocols = []string{g.target}
			sc.Client.Compression, sc.Client.MsgRaw, sc.Client.Identity = "", nil, false
			sc.Client.Timeout = g.timeout
			sc.Note = "valid"
			return sc, checkC12(sc)
		})
}

// ---- C09: every cut point and every flag value of fixed small exchanges -------------------

type c09EnumCase struct {
	base      int
	onRequest bool
	fault     Fault
}

var c09EnumBases []*Scenario

// c09Always: the flag values that mean something in one of the protocols (compressed, Connect
// end-of-stream, gRPC-Web trailers, and their combinations); they are run in full in both tiers.
var c09Always []c09EnumCase

func specialFlag(v int) bool {
	switch v {
	case 0, 1, 2, 3, 0x80, 0x81, 0x82, 0x83, 0xff, 4:
		return true
	}
	return false
}

func c09Family() []c09EnumCase {
	var out []c09EnumCase
	for _, form := range allForms {
		for _, target := range allProtos {
			for _, codecs := range [][]string{{CodecProto}, {CodecJSON}} {
				for _, sameCodec := range []bool{true, false} {
					form, target := form, target
					if form == FormREST && (codecs[0] == CodecJSON) != sameCodec {
						continue // a REST client speaks JSON only
					}
					methods := []string{"Bidi", "ClientStream", "ServerStream"}
					if form == FormConnectUnary || form == FormConnectGet || form == FormREST {
						methods = []string{"Unary", "UnaryGet", "ServerStream"}
					}
					sc := exampleScenario(genOpts{maxBlob: 6, noText: true, forms: []string{form}, methods: methods, backendKinds: []string{"ok"}},
						func(sc *Scenario) bool {
							if sc.Client.Form != form {
								return false
							}
							// at least one message each way (so that there are frames to damage) and a small body
							if len(sc.Client.Msgs) < 1 || len(sc.Backend.Msgs) < 1 {
								return false
							}
							enc, err := encodeRequest(cloneScenario(sc))
							return err == nil && len(enc.Body) <= 160
						})
					if sc == nil {
						continue
					}
					sc = cloneScenario(sc)
					// the client speaks the target's codec (re-framing path) or the other one (re-encoding path)
					if form != FormREST {
						sc.Client.Codec = codecs[0]
						if !sameCodec {
							sc.Client.Codec = map[string]string{CodecProto: CodecJSON, CodecJSON: CodecProto}[codecs[0]]
						}
					}
					sc.Config = Config{Protocols: []string{target}, Codecs: codecs, Compressions: []string{CompGzip}, MaxMsg: 1 << 20}
					sc.Backend.Fault, sc.Client.Fault = nil, nil
					out0 := runScenario(cloneScenario(sc))
					if out0.BuildErr != "" || out0.ConfigErr != "" || out0.Backend == nil || out0.Sent == nil {
						continue
					}
					idx := len(c09EnumBases)
					c09EnumBases = append(c09EnumBases, sc)
					if n := len(out0.Sent.Body); n > 0 {
						for k := 0; k < n; k++ {
							out = append(out, c09EnumCase{idx, true, Fault{Kind: FaultCut, At: k}})
						}
						if formEnveloped(form) {
							for fi := range frameOffsets(out0.Sent.Body) {
								for v := 0; v < 256; v++ {
									cs := c09EnumCase{idx, true, Fault{Kind: FaultFlag, At: fi, Val: v}}
									if specialFlag(v) {
										c09Always = append(c09Always, cs)
									} else {
										out = append(out, cs)
									}
								}
							}
						}
					}
					resp := buildResponse(sc, out0.Backend)
					if n := len(resp.Body); n > 0 && n <= 400 {
						for k := 0; k < n; k++ {
							out = append(out, c09EnumCase{idx, false, Fault{Kind: FaultCut, At: k}})
						}
						v := out0.Backend
						if v.Protocol == ProtoGRPC || v.Protocol == ProtoGRPCWeb || (v.Protocol == ProtoConnect && v.Sub == "stream") {
							for fi := range frameOffsets(resp.Body) {
								for fv := 0; fv < 256; fv++ {
									cs := c09EnumCase{idx, false, Fault{Kind: FaultFlag, At: fi, Val: fv}}
									if specialFlag(fv) {
										c09Always = append(c09Always, cs)
									} else {
										out = append(out, cs)
									}
								}
							}
						}
					}
				}
			}
		}
	}
	return out
}

func enumerateC09(t *testing.T) {
	fam := c09Family()
	run := func(c c09EnumCase) (any, *CheckResult) {
		sc := cloneScenario(c09EnumBases[c.base])
		f := c.fault
		if c.onRequest {
			sc.Client.Fault = &f
		} else {
			sc.Backend.Fault = &f
		}
		return sc, checkC09(sc)
	}
	enumerate(t, "C09", "protocol_flag_values",
		"the same fixed exchanges: the flag byte of every frame of request and response set to each value that means something in one of the protocols (0, 1, 2, 3, 4, 0x80-0x83, 0xff)",
		len(c09Always), 1, func(i int) (any, *CheckResult) { return run(c09Always[i]) })
	enumerate(t, "C09", "cut_points_and_flags",
		fmt.Sprintf("%d fixed exchanges (6 client forms x 4 single target protocols x target codec proto/json x client codec same/other, gzip offered, 1 to 4 messages each way): the request body and the response body cut after every byte offset, and the flag byte of every frame set to every value 0-255", len(c09EnumBases)),
		len(fam), 8, func(i int) (any, *CheckResult) {
			c := fam[i]
			sc := cloneScenario(c09EnumBases[c.base])
			f := c.fault
			if c.onRequest {
				sc.Client.Fault = &f
			} else {
				sc.Backend.Fault = &f
			}
			return sc, checkC09(sc)
		})
}

// ---- C08: every segmentation with up to three segments, and every uniform chunking ----------

type c08EnumCase struct {
	base int
	mod  func(sc *Scenario)
	desc string
}

func c08Family() []c08EnumCase {
	if c09EnumBases == nil {
		c09Family()
	}
	var out []c08EnumCase
	for idx, sc := range c09EnumBases {
		out0 := runScenario(cloneScenario(sc))
		if out0.Backend == nil || out0.Sent == nil {
			continue
		}
		n := len(out0.Sent.Body)
		m := len(buildResponse(sc, out0.Backend).Body)
		add := func(desc string, mod func(sc *Scenario)) { out = append(out, c08EnumCase{idx, mod, desc}) }
		for k := 1; k <= n; k++ {
			k := k
			add(fmt.Sprintf("read_chunk=%d", k), func(sc *Scenario) { sc.Client.ReadChunk = k })
			add(fmt.Sprintf("read_chunk=%d eof_with_data", k), func(sc *Scenario) { sc.Client.ReadChunk = k; sc.Client.EOFWithData = true })
			add(fmt.Sprintf("read_buf=%d", k), func(sc *Scenario) { sc.Backend.ReadBuf = []int{k} })
			if k < n {
				add(fmt.Sprintf("read_split=%d", k), func(sc *Scenario) { sc.Client.ReadSplits = []int{k} })
			}
		}
		if n <= 48 {
			for a := 1; a < n; a++ {
				for b := 1; a+b < n; b++ {
					a, b := a, b
					add(fmt.Sprintf("read_splits=%d,%d", a, b), func(sc *Scenario) { sc.Client.ReadSplits = []int{a, b} })
				}
			}
		}
		for k := 1; k <= m; k++ {
			k := k
			add(fmt.Sprintf("write_chunk=%d", k), func(sc *Scenario) { sc.Backend.WriteChunk = k })
			add(fmt.Sprintf("write_chunk=%d flush", k), func(sc *Scenario) {
				sc.Backend.WriteChunk = k
				sc.Backend.FlushEvery = 1
				sc.Backend.ExplicitHead = true
			})
			if k < m {
				add(fmt.Sprintf("write_split=%d", k), func(sc *Scenario) { sc.Backend.WriteSplits = []int{k}; sc.Backend.EmptyWrites = k%2 == 0 })
			}
		}
		if m <= 48 {
			for a := 1; a < m; a++ {
				for b := 1; a+b < m; b++ {
					a, b := a, b
					add(fmt.Sprintf("write_splits=%d,%d", a, b), func(sc *Scenario) { sc.Backend.WriteSplits = []int{a, b} })
				}
			}
		}
	}
	return out
}

func enumerateC08(t *testing.T) {
	fam := c08Family()
	enumerate(t, "C08", "segmentations_up_to_3",
		fmt.Sprintf("%d fixed exchanges (as for C09): client body delivered in every uniform chunk size 1..n (with and without data on the final EOF read), handler read buffer of every size 1..n, every 2-segment and (bodies up to 48 bytes) every 3-segment split of the client body; response written in every uniform chunk size 1..m (with and without Flush after each), every 2-segment and (up to 48 bytes) every 3-segment split", len(c09EnumBases)),
		len(fam), 8, func(i int) (any, *CheckResult) {
			f := fam[i]
			base := cloneScenario(c09EnumBases[f.base])
			seg := cloneScenario(base)
			f.mod(seg)
			c := &segCase{Base: *base, Seg: *seg}
			return c, checkC08(c)
		})
}
