package verifbench

// Scenario generators (rapid). Scenarios are constructed valid; rejection
// sampling is avoided (DESIGN.md 1.4).

import (
	"strings"

	"google.golang.org/protobuf/proto"
	"google.golang.org/protobuf/reflect/protoreflect"
	"pgregory.net/rapid"
)

type genOpts struct {
	forms       []string // allowed client forms (nil: all)
	methods     []string // allowed methods (nil: all that fit the form)
	maxBlob     int
	noText      bool // never use the text codec
	noFaults    bool
	segmentation bool // draw read/write segmentation
	backendKinds []string
	allowBig    bool
}

var protocolSubsets = func() [][]string {
	var out [][]string
	for mask := 1; mask < 16; mask++ {
		var s []string
		for i, p := range allProtos {
			if mask&(1<<i) != 0 {
				s = append(s, p)
			}
		}
		out = append(out, s)
	}
	return out
}()

var codecLists = [][]string{
	{CodecProto}, {CodecJSON}, {CodecProto, CodecJSON}, {CodecJSON, CodecProto}, {CodecText},
	{CodecProto, CodecText}, {CodecText, CodecJSON}, {CodecJSON, CodecText, CodecProto},
}

var compressionLists = [][]string{{}, {CompGzip}, {CompDeflate}, {CompGzip, CompDeflate}, {CompDeflate, CompGzip}}

func genConfig(t *rapid.T, o genOpts) Config {
	cfg := Config{}
	cfg.Protocols = append([]string(nil), rapid.SampledFrom(protocolSubsets).Draw(t, "cfg_protocols")...)
	cl := codecLists
	if o.noText {
		cl = codecLists[:4]
	}
	cfg.Codecs = append([]string(nil), rapid.SampledFrom(cl).Draw(t, "cfg_codecs")...)
	cfg.Compressions = append([]string{}, rapid.SampledFrom(compressionLists).Draw(t, "cfg_compressions")...)
	if rapid.IntRange(0, 5).Draw(t, "cfg_default_compression") == 0 {
		cfg.Compressions, cfg.DefaultCompression = []string{CompGzip}, true
	}
	cfg.ViaDefaults = rapid.IntRange(0, 4).Draw(t, "cfg_via_defaults") == 0
	cfg.GlobalTypes = rapid.IntRange(0, 3).Draw(t, "cfg_global_types") == 0
	// (0: the library default; small values turn a GET toward a Connect backend into a POST)
	cfg.MaxGetURL = uint32(rapid.SampledFrom([]int{0, 0, 0, 0, 1, 64, 200, 8192}).Draw(t, "cfg_max_get_url"))
	if rapid.IntRange(0, 3).Draw(t, "cfg_other_service") == 0 {
		// a second service with options of its own, registered before or after: nothing of it may
		// show in how the Bench service is served
		oo := &OtherOptions{}
		oo.Protocols = append([]string(nil), rapid.SampledFrom(protocolSubsets[:14]).Draw(t, "other_protocols")...)
		if len(oo.Protocols) == 1 && oo.Protocols[0] == ProtoREST {
			oo.Protocols = []string{ProtoGRPC} // (REST-only needs bindings on every Route method)
		}
		oo.Codecs = append([]string(nil), rapid.SampledFrom(codecLists[:4]).Draw(t, "other_codecs")...)
		oo.Compressions = append([]string{}, rapid.SampledFrom(compressionLists).Draw(t, "other_compressions")...)
		oo.NoCompress = rapid.IntRange(0, 3).Draw(t, "other_no_compress") == 0
		oo.MaxMsg = uint32(rapid.SampledFrom([]int{0, 0, 64, 4096}).Draw(t, "other_max_msg"))
		oo.EmptyTypes = rapid.IntRange(0, 2).Draw(t, "other_empty_types") == 0
		cfg.OtherOpts, cfg.OtherFirst = oo, rapid.Bool().Draw(t, "other_first")
		if oo.NoCompress && rapid.Bool().Draw(t, "other_vs_default_compression") {
			// the other service opts out of compression while this one relies on the library default
			cfg.Compressions, cfg.DefaultCompression = []string{CompGzip}, true
		}
	}
	return cfg
}

type methodShape struct {
	name             string
	cstream, sstream bool
	rest             bool
	noSideFx         bool
}

var benchShapes = func() []methodShape {
	var out []methodShape
	for _, m := range benchMethods {
		out = append(out, methodShape{name: m.name, cstream: m.cstream, sstream: m.sstrm, rest: m.rule != nil,
			noSideFx: m.hasIdempotency && m.idempotency.String() == "NO_SIDE_EFFECTS"})
	}
	return out
}()

func methodsForForm(form string, allowed []string) []methodShape {
	var out []methodShape
	for _, m := range benchShapes {
		if allowed != nil && !contains(allowed, m.name) {
			continue
		}
		unary := !m.cstream && !m.sstream
		switch form {
		case FormConnectUnary:
			if !unary {
				continue
			}
		case FormConnectGet:
			if !unary || !m.noSideFx {
				continue
			}
		case FormConnectStream:
			if unary {
				continue
			}
		case FormREST:
			if !m.rest || (m.cstream && m.sstream) {
				continue
			}
		}
		out = append(out, m)
	}
	return out
}

func genHeaderKVs(t *rapid.T, label string, max int) []KV {
	n := rapid.IntRange(0, max).Draw(t, label+"_n")
	var out []KV
	for i := 0; i < n; i++ {
		name := rapid.SampledFrom([]string{"X-Custom", "x-lower-case", "X-Multi", "Authorization", "X-Data-Bin", "Foo-Bar-Baz", "X-Trace-Id", "Accept-Language", "User-Agent", "Cookie"}).Draw(t, label+"_k")
		var val string
		if strings.HasSuffix(strings.ToLower(name), "-bin") {
			val = rapid.SampledFrom([]string{"AAEC", "3q2+7w", "3q2+7w==", "", "////"}).Draw(t, label+"_bv")
		} else {
			val = rapid.SampledFrom([]string{"v", "two words", "a, b", "=?x", "1234567890", "", "semi;colon=1", "tab\there", "\"q\"", "ünïcode-latin1-is-not-ascii"}).Draw(t, label+"_v")
			if val == "ünïcode-latin1-is-not-ascii" {
				val = "plain-ascii"
			}
		}
		out = append(out, KV{name, val})
	}
	return out
}

func genSplits(t *rapid.T, label string, total int) []int {
	if total <= 0 {
		return nil
	}
	switch rapid.IntRange(0, 5).Draw(t, label+"_mode") {
	case 0:
		return nil
	case 1:
		return []int{1, 1, 1, 1, 1, 1, 1, 1, 1, 1, 1, 1, 1, 1, 1, 1}
	case 2:
		return []int{5}
	case 3:
		return []int{4, 1, 1}
	default:
		return rapid.SliceOfN(rapid.IntRange(1, 9), 1, 12).Draw(t, label)
	}
}

// pathSegPool: decoded values placed into path variables.
var pathSegPool = []string{"a", "shelf1", "a b", "100%", "x:y", "ü", "a+b", "q?x=1", "#frag", "semi;colon", "%41", "日本", "A-Z_a-z.0~9", "a/b", "%", "%2", "&=", "'", "\"", "\\"}

func genSegValue(t *rapid.T, label string, allowSlash bool) string {
	for {
		s := rapid.SampledFrom(pathSegPool).Draw(t, label)
		if !allowSlash && strings.Contains(s, "/") {
			s = strings.ReplaceAll(s, "/", "_")
		}
		if s != "" {
			return s
		}
	}
}

// restProject makes m expressible under rule: path variables get pattern
// conforming non-empty values, inexpressible fields are cleared when the rule
// cannot carry them in the body.
func restProject(t *rapid.T, rule RuleSpec, m proto.Message, label string) {
	tm, err := parseTemplate(rule.Template)
	if err != nil {
		return
	}
	msg := m.ProtoReflect()
	md := msg.Descriptor()
	pathFields := map[string]bool{}
	for _, v := range tm.Vars {
		fds, err := resolveFieldPath(md, v.Path, false)
		if err != nil {
			continue
		}
		pathFields[strings.Join(v.Path, ".")] = true
		leaf := fds[len(fds)-1]
		cur := msg
		for _, fd := range fds[:len(fds)-1] {
			cur = cur.Mutable(fd).Message()
		}
		if leaf.Kind() != protoreflect.StringKind {
			// a path variable always sets its field: the original must have it present too
			switch {
			case leaf.Kind() == protoreflect.MessageKind:
				sub := cur.Mutable(leaf).Message()
				if vf := sub.Descriptor().Fields().ByName("value"); vf != nil && vf.Kind() == protoreflect.BytesKind && len(sub.Get(vf).Bytes()) == 0 {
					sub.Set(vf, protoreflect.ValueOfBytes([]byte{1, 2, 3}))
				}
				if vf := sub.Descriptor().Fields().ByName("value"); vf != nil && vf.Kind() == protoreflect.StringKind && sub.Get(vf).String() == "" {
					sub.Set(vf, protoreflect.ValueOfString(genSegValue(t, label+"_wseg", true)))
				}
				if sub.Descriptor().FullName() == "google.protobuf.FieldMask" && sub.Get(sub.Descriptor().Fields().ByName("paths")).List().Len() == 0 {
					sub.Mutable(sub.Descriptor().Fields().ByName("paths")).List().Append(protoreflect.ValueOfString("foo_bar"))
				}
			case leaf.Kind() == protoreflect.BytesKind && len(cur.Get(leaf).Bytes()) == 0:
				cur.Set(leaf, protoreflect.ValueOfBytes([]byte{0xfb, 0xff, 0x3e}))
			case leaf.HasPresence() && !cur.Has(leaf):
				cur.Set(leaf, cur.Get(leaf))
			}
			continue // other text forms are never empty
		}
		end := v.End
		if end == -1 {
			end = len(tm.Segs)
		}
		var parts []string
		multi := v.End == -1 || end-v.Start > 1
		for i := v.Start; i < end; i++ {
			switch tm.Segs[i].Kind {
			case segLit:
				parts = append(parts, tm.Segs[i].Lit)
			case segStar:
				parts = append(parts, genSegValue(t, label+"_seg", !multi))
			case segDStar:
				n := rapid.IntRange(1, 3).Draw(t, label+"_dn")
				for j := 0; j < n; j++ {
					parts = append(parts, genSegValue(t, label+"_dseg", false))
				}
			}
		}
		val := strings.Join(parts, "/")
		if multi {
			val = strings.ReplaceAll(strings.ReplaceAll(val, "%2F", "%2_"), "%2f", "%2_")
		}
		cur.Set(leaf, protoreflect.ValueOfString(val))
	}
	if rule.Body == "*" {
		return
	}
	// clear what the query string cannot carry
	var scrub func(cur protoreflect.Message, prefix string, depth int)
	scrub = func(cur protoreflect.Message, prefix string, depth int) {
		cur.Range(func(fd protoreflect.FieldDescriptor, v protoreflect.Value) bool {
			p := prefix + string(fd.Name())
			if depth == 0 && string(fd.Name()) == rule.Body {
				return true
			}
			switch {
			case fd.IsMap():
				cur.Clear(fd)
			case isParamLeaf(fd):
			case fd.Kind() == protoreflect.MessageKind && !fd.IsList():
				scrub(v.Message(), p+".", depth+1)
				empty := true
				v.Message().Range(func(protoreflect.FieldDescriptor, protoreflect.Value) bool { empty = false; return false })
				if empty && !hasUsedBelow(pathFields, p+".") {
					cur.Clear(fd)
				}
			default:
				cur.Clear(fd)
			}
			return true
		})
	}
	scrub(msg, "", 0)
}

// genClient draws the client half of a scenario for the given config.
func genClient(t *rapid.T, cfg *Config, o genOpts) Client {
	forms := o.forms
	if forms == nil {
		forms = allForms
	}
	c := Client{}
	c.Form = rapid.SampledFrom(forms).Draw(t, "form")
	ms := methodsForForm(c.Form, o.methods)
	if len(ms) == 0 {
		ms = methodsForForm(c.Form, nil)
	}
	m := rapid.SampledFrom(ms).Draw(t, "method")
	c.Method = m.name
	mi := lookupMethod(benchService, m.name)
	switch c.Form {
	case FormGRPC:
		c.HTTP2 = true
	default:
		c.HTTP2 = rapid.Bool().Draw(t, "http2")
		if m.cstream && m.sstream {
			c.HTTP2 = true
		}
	}
	codecs := []string{CodecProto, CodecJSON, CodecProto, CodecJSON, CodecText}
	if o.noText {
		codecs = codecs[:4]
	}
	c.Codec = rapid.SampledFrom(codecs).Draw(t, "codec")
	if c.Form == FormREST {
		c.Codec = CodecJSON
	}
	c.JSON = JSONStyle{
		ProtoNames:      rapid.Bool().Draw(t, "json_proto_names"),
		EmitUnpopulated: rapid.IntRange(0, 3).Draw(t, "json_emit") == 0,
		EnumNumbers:     rapid.IntRange(0, 3).Draw(t, "json_enum_num") == 0,
		Indent:          rapid.IntRange(0, 5).Draw(t, "json_indent") == 0,
	}
	c.Param = ParamStyle{
		BytesURLSafe: rapid.Bool().Draw(t, "p_urlsafe"),
		BytesNoPad:   rapid.Bool().Draw(t, "p_nopad"),
		EnumNumber:   rapid.IntRange(0, 3).Draw(t, "p_enum_num") == 0,
		ProtoNames:   rapid.Bool().Draw(t, "p_proto_names"),
	}
	c.Compression = rapid.SampledFrom([]string{"", "", CompGzip, CompGzip, CompDeflate}).Draw(t, "compression")
	c.Identity = c.Compression == "" && rapid.IntRange(0, 5).Draw(t, "identity_header") == 0
	c.Accept = append([]string(nil), rapid.SampledFrom([][]string{nil, {CompGzip}, {CompDeflate, CompGzip}, {CompGzip, "br"}, {"identity"}, {"zstd"}}).Draw(t, "accept")...)
	nmsg := 1
	if m.cstream && c.Form != FormREST {
		nmsg = rapid.IntRange(0, 4).Draw(t, "nreq")
	}
	mo := defaultMsgOpts
	if o.maxBlob > 0 {
		mo.maxBlob = o.maxBlob
	}
	if o.allowBig && rapid.IntRange(0, 19).Draw(t, "big") == 0 {
		mo.maxBlob = 5000
	}
	var firstRule *RuleSpec
	if c.Form == FormREST {
		bs := flatBindings(benchService, m.name)
		c.Binding = rapid.IntRange(0, len(bs)-1).Draw(t, "binding")
		r := bs[c.Binding]
		firstRule = &r
	} else if len(cfg.Protocols) == 1 && cfg.Protocols[0] == ProtoREST || (!contains(cfg.Protocols, formProtocol(c.Form)) && rapid.Bool().Draw(t, "rest_friendly")) {
		if bs := flatBindings(benchService, m.name); len(bs) > 0 {
			firstRule = &bs[0]
		}
	}
	for i := 0; i < nmsg; i++ {
		msg := genMessage(t, mi.In, "req", mo)
		if firstRule != nil {
			restProject(t, *firstRule, msg, "proj")
		}
		c.Msgs = append(c.Msgs, mustMarshal(msg))
		if c.Compression != "" && formEnveloped(c.Form) {
			c.MsgRaw = append(c.MsgRaw, rapid.IntRange(0, 3).Draw(t, "req_raw") == 0)
		}
	}
	c.Headers = genHeaderKVs(t, "req_hdr", 3)
	c.DeclareCL = rapid.Bool().Draw(t, "declare_cl")
	c.EOFWithData = rapid.Bool().Draw(t, "eof_with_data")
	c.GetBase64 = rapid.Bool().Draw(t, "get_b64")
	c.GetPadded = rapid.Bool().Draw(t, "get_padded")
	c.GetVersionHeader = rapid.IntRange(0, 2).Draw(t, "get_version_header") == 0
	c.BareContentType = rapid.IntRange(0, 3).Draw(t, "bare_content_type") == 0
	if o.segmentation {
		c.ReadSplits = genSplits(t, "read_splits", 1)
	}
	return c
}

func genErrSpec(t *rapid.T, label string, restSafe bool) *ErrSpec {
	e := &ErrSpec{Code: int64(rapid.IntRange(1, 16).Draw(t, label+"_code"))}
	// leading/trailing whitespace cannot be carried in an HTTP field value (grpc-message): not generated
	e.Message = strings.TrimSpace(genString(t, label+"_msg", 30))
	nd := rapid.IntRange(0, 2).Draw(t, label+"_nd")
	for i := 0; i < nd; i++ {
		e.Details = append(e.Details, genDetail(t, label+"_d", restSafe))
	}
	return e
}

func genDetail(t *rapid.T, label string, resolvableOnly bool) Detail {
	k := rapid.IntRange(0, 3).Draw(t, label+"_k")
	if resolvableOnly && k == 3 {
		k = 0
	}
	switch k {
	case 0:
		m := newMessage("google.rpc.ErrorInfo")
		r := m.ProtoReflect()
		r.Set(r.Descriptor().Fields().ByName("reason"), protoreflect.ValueOfString(genString(t, label+"_reason", 10)))
		r.Set(r.Descriptor().Fields().ByName("domain"), protoreflect.ValueOfString("bench.test"))
		return Detail{Type: "google.rpc.ErrorInfo", Value: mustMarshal(m)}
	case 1:
		m := newMessage("google.rpc.RetryInfo")
		return Detail{Type: "google.rpc.RetryInfo", Value: mustMarshal(m)}
	case 2:
		m := newMessage("google.rpc.LocalizedMessage")
		r := m.ProtoReflect()
		r.Set(r.Descriptor().Fields().ByName("locale"), protoreflect.ValueOfString("en-US"))
		r.Set(r.Descriptor().Fields().ByName("message"), protoreflect.ValueOfString(genString(t, label+"_lm", 10)))
		return Detail{Type: "google.rpc.LocalizedMessage", Value: mustMarshal(m)}
	default:
		return Detail{Type: "unknown.pkg.Mystery", Value: genBytes(t, label+"_raw", 12)}
	}
}

// genBackend draws the backend script for the method.
func genBackend(t *rapid.T, c *Client, o genOpts) Backend {
	b := Backend{}
	mi := lookupMethod(c.service(), c.Method)
	kinds := o.backendKinds
	if kinds == nil {
		kinds = []string{"ok"}
	}
	b.Kind = rapid.SampledFrom(kinds).Draw(t, "backend_kind")
	nresp := 1
	if mi.SStream {
		nresp = rapid.IntRange(0, 4).Draw(t, "nresp")
	}
	if b.Kind != "ok" && !mi.SStream {
		nresp = 0
	}
	if b.Kind == "trailers_only" {
		nresp = 0
	}
	mo := defaultMsgOpts
	if o.maxBlob > 0 {
		mo.maxBlob = o.maxBlob
	}
	b.Compress = rapid.Bool().Draw(t, "resp_compress")
	for i := 0; i < nresp; i++ {
		b.Msgs = append(b.Msgs, mustMarshal(genMessage(t, mi.Out, "resp", mo)))
		b.MsgRaw = append(b.MsgRaw, b.Compress && rapid.IntRange(0, 3).Draw(t, "resp_raw") == 0)
	}
	b.Headers = genHeaderKVs(t, "resp_hdr", 2)
	b.Trailers = genHeaderKVs(t, "resp_trl", 2)
	b.TrailerStyle = rapid.SampledFrom([]string{"declared", "prefixed"}).Draw(t, "trailer_style")
	b.TrailerCase = rapid.SampledFrom([]string{"", "", "lower", "mixed", "upper"}).Draw(t, "trailer_case")
	b.TrailerOneLine = rapid.IntRange(0, 2).Draw(t, "trailer_one_line") == 0
	b.CompactTrailers = rapid.IntRange(0, 3).Draw(t, "compact_trailers") == 0
	b.CompressEnd = b.Compress && rapid.IntRange(0, 2).Draw(t, "compress_end") == 0
	b.CompressError = b.Compress && rapid.IntRange(0, 2).Draw(t, "compress_error") == 0
	if b.Kind == "ok" {
		b.OKMessage = rapid.SampledFrom([]string{"", "", "", "OK", "all good"}).Draw(t, "ok_message")
	}
	b.EarlyHeaders = rapid.IntRange(0, 2).Draw(t, "early_headers") == 0
	b.IdentityHeader = rapid.IntRange(0, 5).Draw(t, "resp_identity_header") == 0
	b.CloseBody = rapid.IntRange(0, 2).Draw(t, "close_body") == 0
	if b.CloseBody {
		b.CloseAgain = rapid.Bool().Draw(t, "close_again")
		b.CloseAfterWrites = rapid.IntRange(0, 2).Draw(t, "close_after_writes")
	}
	fixTrailerStyle(&b)
	b.DeclareCL = rapid.IntRange(0, 3).Draw(t, "resp_declare_cl") == 0
	if b.Kind == "error" || b.Kind == "trailers_only" {
		b.Err = genErrSpec(t, "err", true)
		b.PadDetails = rapid.Bool().Draw(t, "pad_details")
	}
	if b.Kind == "http_status" {
		b.HTTPStatus = rapid.SampledFrom([]int{400, 401, 403, 404, 408, 409, 418, 429, 500, 502, 503, 504, 301, 204, 599}).Draw(t, "http_status")
		b.RawCT = rapid.SampledFrom([]string{"text/plain", "text/html", "application/json", "", "application/octet-stream"}).Draw(t, "raw_ct")
		b.RawBody = []byte(rapid.SampledFrom([]string{"", "oops", "<html>bad gateway</html>", "{}", `{"code":"not_found"}`, `{"message":"hm"}`, "\x00\x01\x02"}).Draw(t, "raw_body"))
	}
	if o.segmentation {
		b.ReadBuf = rapid.SampledFrom([][]int{nil, {1}, {2}, {3}, {4}, {5}, {6}, {7, 1}, {1, 4, 1}, {4096}}).Draw(t, "read_buf")
		b.WriteSplits = genSplits(t, "write_splits", 1)
		b.FlushEvery = rapid.IntRange(0, 3).Draw(t, "flush_every")
		b.EmptyWrites = rapid.IntRange(0, 4).Draw(t, "empty_writes") == 0
	}
	return b
}

func genScenario(t *rapid.T, o genOpts) *Scenario {
	sc := &Scenario{}
	sc.Config = genConfig(t, o)
	sc.Client = genClient(t, &sc.Config, o)
	sc.Backend = genBackend(t, &sc.Client, o)
	return sc
}

// ---- derived facts about a scenario ---------------------------------------------------

// effectiveCompression: a body-less REST request declares no compression at all.
func effectiveCompression(c *Client, enc *encodedRequest) string {
	if c.Form == FormREST && enc != nil && enc.REST != nil && !enc.REST.HasBody {
		return ""
	}
	return c.Compression
}

func clientTriple(c *Client, enc *encodedRequest) string {
	p := formProtocol(c.Form)
	sub := ""
	switch c.Form {
	case FormConnectUnary:
		sub = "/unary"
	case FormConnectGet:
		sub = "/get"
	case FormConnectStream:
		sub = "/stream"
	}
	return p + sub + "+" + c.Codec + "+" + effectiveCompression(c, enc)
}

func anyNonDefault(msgs [][]byte) bool {
	for _, m := range msgs {
		if len(m) > 0 {
			return true
		}
	}
	return false
}

// fixTrailerStyle: a name used both as header and as trailer can only be told
// apart with http.TrailerPrefix (with a pre-announced key net/http itself sends
// the header value again as trailer).
func fixTrailerStyle(b *Backend) {
	seen := map[string]bool{}
	for _, kv := range b.Headers {
		seen[strings.ToLower(kv.K)] = true
	}
	for _, kv := range b.RawHeaders {
		seen[strings.ToLower(kv.K)] = true
	}
	for _, kv := range b.Trailers {
		if seen[strings.ToLower(kv.K)] {
			b.TrailerStyle = "prefixed"
		}
	}
}


// patternMisfit changes the value of one path variable whose pattern fixes literals or a number of
// segments ({x=lit/*}, {x=*/lit/*}) so that it no longer matches that pattern: a surplus segment
// (preferably spelled like the literal that follows the variable in the template), a missing one,
// or a wrong literal. Reports whether it changed anything.
func patternMisfit(t *rapid.T, rule RuleSpec, m proto.Message, label string) bool {
	tm, err := parseTemplate(rule.Template)
	if err != nil {
		return false
	}
	msg := m.ProtoReflect()
	for _, v := range tm.Vars {
		if v.End == -1 || v.End-v.Start < 1 {
			continue
		}
		hasLit := false
		for i := v.Start; i < v.End; i++ {
			if tm.Segs[i].Kind == segLit {
				hasLit = true
			}
		}
		if !hasLit && v.End-v.Start < 2 {
			continue // a single '*': every non-empty segment value fits
		}
		fds, err := resolveFieldPath(msg.Descriptor(), v.Path, false)
		if err != nil || fds[len(fds)-1].Kind() != protoreflect.StringKind {
			continue
		}
		cur := msg
		for _, fd := range fds[:len(fds)-1] {
			cur = cur.Mutable(fd).Message()
		}
		leaf := fds[len(fds)-1]
		val := cur.Get(leaf).String()
		parts := strings.Split(val, "/")
		switch rapid.IntRange(0, 3).Draw(t, label+"_kind") {
		case 0, 1: // one segment too many: the literal following the variable, or something fresh
			extra := "extra"
			if v.End < len(tm.Segs) && tm.Segs[v.End].Kind == segLit && rapid.Bool().Draw(t, label+"_next_lit") {
				extra = tm.Segs[v.End].Lit
			}
			val = val + "/" + extra
		case 2: // one segment too few
			if len(parts) < 2 {
				continue
			}
			val = strings.Join(parts[:len(parts)-1], "/")
		default: // a literal position spelled differently
			changed := false
			for i := v.Start; i < v.End && i-v.Start < len(parts); i++ {
				if tm.Segs[i].Kind == segLit {
					parts[i-v.Start] += "x"
					changed = true
					break
				}
			}
			if !changed {
				continue
			}
			val = strings.Join(parts, "/")
		}
		cur.Set(leaf, protoreflect.ValueOfString(val))
		return true
	}
	return false
}
