package verifbench

// The dynamic service descriptors the bench drives. Built from
// descriptorpb so nothing is written into /repo. Message types are the
// repository's own test messages (AllTypes, ParameterValues) plus two small
// messages of our own that embed google.api.HttpBody.

import (
	"fmt"
	"sync"

	testv1 "connectrpc.com/vanguard/internal/gen/vanguard/test/v1"
	"google.golang.org/genproto/googleapis/api/annotations"
	_ "google.golang.org/genproto/googleapis/api/httpbody"
	_ "google.golang.org/genproto/googleapis/rpc/errdetails"
	"google.golang.org/protobuf/proto"
	"google.golang.org/protobuf/reflect/protodesc"
	"google.golang.org/protobuf/reflect/protoreflect"
	"google.golang.org/protobuf/reflect/protoregistry"
	"google.golang.org/protobuf/types/descriptorpb"
	"google.golang.org/protobuf/types/dynamicpb"
	_ "google.golang.org/protobuf/types/known/emptypb"
)

var _ = testv1.File_vanguard_test_v1_test_proto

const (
	benchPkg     = "verif.v1"
	benchService = "verif.v1.Bench"
	routeService = "verif.v1.Route"
)

// RuleSpec is a JSON-serialisable google.api.HttpRule (one binding).
type RuleSpec struct {
	Selector     string     `json:"selector,omitempty"`
	Method       string     `json:"method"` // GET, PUT, POST, DELETE, PATCH or a custom kind
	Custom       bool       `json:"custom,omitempty"`
	Template     string     `json:"template"`
	Body         string     `json:"body,omitempty"`
	ResponseBody string     `json:"response_body,omitempty"`
	Additional   []RuleSpec `json:"additional,omitempty"`
}

func (r RuleSpec) toProto() *annotations.HttpRule {
	out := &annotations.HttpRule{Selector: r.Selector, Body: r.Body, ResponseBody: r.ResponseBody}
	if r.Custom {
		out.Pattern = &annotations.HttpRule_Custom{Custom: &annotations.CustomHttpPattern{Kind: r.Method, Path: r.Template}}
	} else {
		switch r.Method {
		case "GET":
			out.Pattern = &annotations.HttpRule_Get{Get: r.Template}
		case "PUT":
			out.Pattern = &annotations.HttpRule_Put{Put: r.Template}
		case "POST":
			out.Pattern = &annotations.HttpRule_Post{Post: r.Template}
		case "DELETE":
			out.Pattern = &annotations.HttpRule_Delete{Delete: r.Template}
		case "PATCH":
			out.Pattern = &annotations.HttpRule_Patch{Patch: r.Template}
		case "":
			// no pattern at all
		default:
			out.Pattern = &annotations.HttpRule_Custom{Custom: &annotations.CustomHttpPattern{Kind: r.Method, Path: r.Template}}
		}
	}
	for _, a := range r.Additional {
		out.AdditionalBindings = append(out.AdditionalBindings, a.toProto())
	}
	return out
}

// flat returns the rule and its additional bindings as a flat list.
func (r RuleSpec) flat() []RuleSpec {
	out := []RuleSpec{r}
	for _, a := range r.Additional {
		a.Selector = r.Selector
		out = append(out, a)
	}
	return out
}

type methodSpec struct {
	name            string
	in, out         string // full message names
	cstream, sstrm  bool
	idempotency     descriptorpb.MethodOptions_IdempotencyLevel
	rule            *RuleSpec
	hasIdempotency  bool
}

const (
	msgAll    = "vanguard.test.v1.AllTypes"
	msgParams = "vanguard.test.v1.ParameterValues"
	msgBodyIn = "verif.v1.BodyIn"
	msgBodyOu = "verif.v1.BodyOut"
	msgHTTPB  = "google.api.HttpBody"
)

// benchMethods: the fixed Bench service. REST bindings here are the ones the
// general bench (C01-C05, C08, C09, ...) uses; C06/C07/C17 generate their own
// rules against the Route service, which carries no annotations.
var benchMethods = []methodSpec{
	{name: "Unary", in: msgAll, out: msgAll, rule: &RuleSpec{Method: "POST", Template: "/v1/unary", Body: "*"}},
	{name: "UnaryGet", in: msgAll, out: msgAll, hasIdempotency: true, idempotency: descriptorpb.MethodOptions_NO_SIDE_EFFECTS,
		rule: &RuleSpec{Method: "GET", Template: "/v1/get/{string_value}", Additional: []RuleSpec{
			{Method: "POST", Template: "/v1/get/{string_value}:post", Body: "msg_value"},
		}}},
	{name: "UnaryIdem", in: msgAll, out: msgAll, hasIdempotency: true, idempotency: descriptorpb.MethodOptions_IDEMPOTENT},
	{name: "UnaryPlain", in: msgAll, out: msgAll},
	{name: "UnaryField", in: msgAll, out: msgAll,
		rule: &RuleSpec{Method: "PUT", Template: "/v1/field/{string_value}/{int32_value}", Body: "msg_value", ResponseBody: "msg_value"}},
	{name: "UnaryMulti", in: msgAll, out: msgAll,
		rule: &RuleSpec{Method: "PATCH", Template: "/v1/multi/{string_value=**}", Body: "*"}},
	{name: "Params", in: msgParams, out: msgParams, hasIdempotency: true, idempotency: descriptorpb.MethodOptions_NO_SIDE_EFFECTS,
		rule: &RuleSpec{Method: "GET", Template: "/v1/params", Additional: []RuleSpec{
			{Method: "POST", Template: "/v1/params/{string_value}/{nested.double_value}", Body: "recursive", ResponseBody: "recursive"},
			{Method: "DELETE", Template: "/v1/params/{enum_value}/x/{recursive.string_value=a/*/b/**}:del"},
		}}},
	{name: "ClientStream", in: msgAll, out: msgAll, cstream: true},
	{name: "ServerStream", in: msgAll, out: msgAll, sstrm: true},
	{name: "Bidi", in: msgAll, out: msgAll, cstream: true, sstrm: true},
	{name: "Upload", in: msgBodyIn, out: msgAll, cstream: true,
		rule: &RuleSpec{Method: "POST", Template: "/v1/files/{name=**}:upload", Body: "file"}},
	{name: "Download", in: msgAll, out: msgBodyOu, sstrm: true,
		rule: &RuleSpec{Method: "GET", Template: "/v1/files/{string_value=**}:download", ResponseBody: "file"}},
	{name: "Page", in: msgAll, out: msgHTTPB, hasIdempotency: true, idempotency: descriptorpb.MethodOptions_NO_SIDE_EFFECTS,
		rule: &RuleSpec{Method: "GET", Template: "/v1/page/{string_value}"}},
	{name: "PutPage", in: msgBodyIn, out: msgBodyOu,
		rule: &RuleSpec{Method: "PUT", Template: "/v1/page/{name}", Body: "file", ResponseBody: "file"}},
	// google.protobuf.Any in request and response: transcoding it between proto and JSON goes through
	// the service's type resolver (type URLs with any prefix)
	{name: "AnyEcho", in: benchPkg + ".AnyBox", out: benchPkg + ".AnyBox",
		rule: &RuleSpec{Method: "POST", Template: "/v1/any", Body: "*"}},
	{name: "AnyStream", in: benchPkg + ".AnyBox", out: benchPkg + ".AnyBox", cstream: true, sstrm: true},
}

// routeMethods: un-annotated service for generated rule tables.
var routeMethods = []methodSpec{
	{name: "A", in: msgParams, out: msgParams},
	{name: "B", in: msgParams, out: msgParams},
	{name: "C", in: msgParams, out: msgParams},
	{name: "D", in: msgParams, out: msgParams, hasIdempotency: true, idempotency: descriptorpb.MethodOptions_NO_SIDE_EFFECTS},
	{name: "Get", in: msgAll, out: msgAll},
	{name: "GetMore", in: msgAll, out: msgAll},
	{name: "GetMoreStill", in: msgBodyIn, out: msgBodyOu},
	{name: "Stream", in: msgAll, out: msgAll, sstrm: true},
	{name: "Wkt", in: benchPkg + ".WktLike", out: msgBodyOu}, // messages named like well-known types, in another package
}

type schemaSet struct {
	file    protoreflect.FileDescriptor
	bench   protoreflect.ServiceDescriptor
	route   protoreflect.ServiceDescriptor
	fdProto *descriptorpb.FileDescriptorProto
}

var (
	schemaOnce sync.Once
	schemaVal  *schemaSet
)

func strp(s string) *string { return &s }
func i32p(i int32) *int32   { return &i }

func buildFileProto(withAnnotations bool) *descriptorpb.FileDescriptorProto {
	lbl := descriptorpb.FieldDescriptorProto_LABEL_OPTIONAL
	tStr := descriptorpb.FieldDescriptorProto_TYPE_STRING
	tMsg := descriptorpb.FieldDescriptorProto_TYPE_MESSAGE
	tI32 := descriptorpb.FieldDescriptorProto_TYPE_INT32
	fd := &descriptorpb.FileDescriptorProto{
		Name:    strp("verif/v1/bench.proto"),
		Package: strp(benchPkg),
		Syntax:  strp("proto3"),
		Dependency: []string{
			"vanguard/test/v1/test.proto",
			"google/api/annotations.proto",
			"google/api/httpbody.proto",
			"google/protobuf/any.proto",
		},
		MessageType: []*descriptorpb.DescriptorProto{
			{Name: strp("BodyIn"), Field: []*descriptorpb.FieldDescriptorProto{
				{Name: strp("name"), JsonName: strp("name"), Number: i32p(1), Label: &lbl, Type: &tStr},
				{Name: strp("file"), JsonName: strp("file"), Number: i32p(2), Label: &lbl, Type: &tMsg, TypeName: strp(".google.api.HttpBody")},
				{Name: strp("seq"), JsonName: strp("seq"), Number: i32p(3), Label: &lbl, Type: &tI32},
			}},
			{Name: strp("AnyBox"), Field: []*descriptorpb.FieldDescriptorProto{
				{Name: strp("payload"), JsonName: strp("payload"), Number: i32p(1), Label: &lbl, Type: &tMsg, TypeName: strp(".google.protobuf.Any")},
				{Name: strp("list"), JsonName: strp("list"), Number: i32p(2), Label: descriptorpb.FieldDescriptorProto_LABEL_REPEATED.Enum(), Type: &tMsg, TypeName: strp(".google.protobuf.Any")},
				{Name: strp("note"), JsonName: strp("note"), Number: i32p(3), Label: &lbl, Type: &tStr},
			}},
			{Name: strp("Duration"), Field: []*descriptorpb.FieldDescriptorProto{
				{Name: strp("text"), JsonName: strp("text"), Number: i32p(1), Label: &lbl, Type: &tStr},
			}},
			{Name: strp("Empty")},
			{Name: strp("WktLike"), Field: []*descriptorpb.FieldDescriptorProto{
				{Name: strp("name"), JsonName: strp("name"), Number: i32p(1), Label: &lbl, Type: &tStr},
				{Name: strp("duration"), JsonName: strp("duration"), Number: i32p(2), Label: &lbl, Type: &tMsg, TypeName: strp("." + benchPkg + ".Duration")},
				{Name: strp("empty"), JsonName: strp("empty"), Number: i32p(3), Label: &lbl, Type: &tMsg, TypeName: strp("." + benchPkg + ".Empty")},
			}},
			{Name: strp("BodyOut"), Field: []*descriptorpb.FieldDescriptorProto{
				{Name: strp("file"), JsonName: strp("file"), Number: i32p(1), Label: &lbl, Type: &tMsg, TypeName: strp(".google.api.HttpBody")},
				{Name: strp("note"), JsonName: strp("note"), Number: i32p(2), Label: &lbl, Type: &tStr},
			}},
		},
	}
	mk := func(name string, specs []methodSpec, annotate bool) *descriptorpb.ServiceDescriptorProto {
		sd := &descriptorpb.ServiceDescriptorProto{Name: strp(name)}
		for _, m := range specs {
			md := &descriptorpb.MethodDescriptorProto{
				Name:       strp(m.name),
				InputType:  strp("." + m.in),
				OutputType: strp("." + m.out),
			}
			if m.cstream {
				md.ClientStreaming = proto.Bool(true)
			}
			if m.sstrm {
				md.ServerStreaming = proto.Bool(true)
			}
			if m.hasIdempotency || (annotate && m.rule != nil) {
				md.Options = &descriptorpb.MethodOptions{}
				if m.hasIdempotency {
					md.Options.IdempotencyLevel = m.idempotency.Enum()
				}
				if annotate && m.rule != nil {
					proto.SetExtension(md.Options, annotations.E_Http, m.rule.toProto())
				}
			}
			sd.Method = append(sd.Method, md)
		}
		return sd
	}
	fd.Service = []*descriptorpb.ServiceDescriptorProto{
		mk("Bench", benchMethods, withAnnotations),
		mk("Route", routeMethods, false),
	}
	return fd
}

func schema() *schemaSet {
	schemaOnce.Do(func() {
		fdp := buildFileProto(true)
		file, err := protodesc.NewFile(fdp, protoregistry.GlobalFiles)
		if err != nil {
			panic(fmt.Sprintf("verifbench: cannot build schema: %v", err))
		}
		schemaVal = &schemaSet{
			file:    file,
			bench:   file.Services().ByName("Bench"),
			route:   file.Services().ByName("Route"),
			fdProto: fdp,
		}
	})
	return schemaVal
}

// newMessage instantiates a message by full name: generated type if known,
// otherwise dynamic from our file.
func newMessage(name string) proto.Message {
	if mt, err := protoregistry.GlobalTypes.FindMessageByName(protoreflect.FullName(name)); err == nil {
		return mt.New().Interface()
	}
	md := schema().file.Messages().ByName(protoreflect.FullName(name).Name())
	if md == nil {
		panic("verifbench: unknown message " + name)
	}
	return dynamicpb.NewMessage(md)
}

func messageDescriptor(name string) protoreflect.MessageDescriptor {
	return newMessage(name).ProtoReflect().Descriptor()
}

type methodInfo struct {
	Service  string
	Name     string
	Path     string // "/svc/Method"
	In, Out  string
	CStream  bool
	SStream  bool
	NoSideFx bool
	Desc     protoreflect.MethodDescriptor
}

func lookupMethod(service, name string) *methodInfo {
	s := schema()
	var sd protoreflect.ServiceDescriptor
	switch service {
	case benchService:
		sd = s.bench
	case routeService:
		sd = s.route
	default:
		d, err := protoregistry.GlobalFiles.FindDescriptorByName(protoreflect.FullName(service))
		if err != nil {
			return nil
		}
		sd, _ = d.(protoreflect.ServiceDescriptor)
	}
	if sd == nil {
		return nil
	}
	md := sd.Methods().ByName(protoreflect.Name(name))
	if md == nil {
		return nil
	}
	mi := &methodInfo{
		Service: service, Name: name, Path: "/" + service + "/" + name,
		In: string(md.Input().FullName()), Out: string(md.Output().FullName()),
		CStream: md.IsStreamingClient(), SStream: md.IsStreamingServer(), Desc: md,
	}
	if mo, ok := md.Options().(*descriptorpb.MethodOptions); ok && mo.GetIdempotencyLevel() == descriptorpb.MethodOptions_NO_SIDE_EFFECTS {
		mi.NoSideFx = true
	}
	return mi
}

func benchRuleFor(method string) *RuleSpec {
	for i := range benchMethods {
		if benchMethods[i].name == method {
			return benchMethods[i].rule
		}
	}
	return nil
}
