package verifbench

// Schema-driven message generator (DESIGN.md 1.2): draws every field kind from
// boundary pools plus random values, for any message descriptor.

import (
	"google.golang.org/protobuf/types/known/wrapperspb"
	"google.golang.org/protobuf/types/known/timestamppb"
	"google.golang.org/protobuf/types/known/durationpb"
	"google.golang.org/genproto/googleapis/rpc/errdetails"
	"time"
	"math"
	"strings"

	"google.golang.org/protobuf/proto"
	"google.golang.org/protobuf/reflect/protoreflect"
	"pgregory.net/rapid"
)

type msgOpts struct {
	maxDepth  int
	maxFields int
	maxBlob   int  // max length of strings / bytes
	noUnknownEnum bool
}

var defaultMsgOpts = msgOpts{maxDepth: 2, maxFields: 6, maxBlob: 40}

var stringPool = []string{
	"", "a", "hello world", "100%", "a/b", "x:y", "ü", "日本語", "\U0001F600", `"quoted"`, `back\slash`,
	"line\nbreak\ttab", "\x00nul", "a+b", "q?x=1&y=2", "#frag", "semi;colon", "%41", "%2F", "%zz", " lead", "trail ",
	"ÿ", " ", "<tag>&amp;", "null", "true", "-0", "1e3", "{}", "[1]", "comma,comma", "eq=eq", "*", "**", "{x}",
	"del\x7fchar", "\x1fus\x01", "~tilde~",
}

var int64Pool = []int64{0, 1, -1, 2, 127, 128, 255, 256, 32767, 65535, math.MaxInt32, math.MinInt32, math.MaxInt32 + 1,
	math.MaxInt64, math.MinInt64, 1 << 53, 1<<53 + 1, -(1 << 53) - 1, 9007199254740993}

var float64Pool = []float64{0, math.Copysign(0, -1), 1, -1, 0.5, 1.5, 1e21, 1e-7, 123456789.125, math.MaxFloat64, math.SmallestNonzeroFloat64,
	math.MaxFloat32, math.SmallestNonzeroFloat32, math.Inf(1), math.Inf(-1), math.NaN(), 3.4028236e38, 0.1, 1.0000000000000002, 16777217}

func genString(t *rapid.T, label string, maxLen int) string {
	switch rapid.IntRange(0, 9).Draw(t, label+"_k") {
	case 0, 1, 2, 3:
		return rapid.SampledFrom(stringPool).Draw(t, label+"_pool")
	case 4:
		n := rapid.IntRange(0, maxLen).Draw(t, label+"_len")
		return strings.Repeat(rapid.SampledFrom([]string{"a", "é", "xyz ", "%"}).Draw(t, label+"_unit"), n)
	default:
		s := rapid.StringN(0, maxLen, -1).Draw(t, label+"_s")
		return strings.ToValidUTF8(s, "?")
	}
}

func genBytes(t *rapid.T, label string, maxLen int) []byte {
	switch rapid.IntRange(0, 5).Draw(t, label+"_k") {
	case 0:
		return []byte{}
	case 1:
		return []byte{0x00, 0xff, 0xfe, 0x3e, 0x3f, 0xfb, 0xef}
	case 2:
		n := rapid.IntRange(0, maxLen).Draw(t, label+"_len")
		return []byte(strings.Repeat("A", n))
	default:
		return rapid.SliceOfN(rapid.Byte(), 0, maxLen).Draw(t, label+"_b")
	}
}

func genInt64(t *rapid.T, label string) int64 {
	if rapid.Bool().Draw(t, label+"_p") {
		return rapid.SampledFrom(int64Pool).Draw(t, label+"_pool")
	}
	return rapid.Int64().Draw(t, label)
}

func genFloat64(t *rapid.T, label string) float64 {
	if rapid.Bool().Draw(t, label+"_p") {
		return rapid.SampledFrom(float64Pool).Draw(t, label+"_pool")
	}
	return rapid.Float64().Draw(t, label)
}

func genScalar(t *rapid.T, fd protoreflect.FieldDescriptor, label string, o msgOpts) protoreflect.Value {
	switch fd.Kind() {
	case protoreflect.BoolKind:
		return protoreflect.ValueOfBool(rapid.Bool().Draw(t, label))
	case protoreflect.Int32Kind, protoreflect.Sint32Kind, protoreflect.Sfixed32Kind:
		return protoreflect.ValueOfInt32(int32(genInt64(t, label)))
	case protoreflect.Int64Kind, protoreflect.Sint64Kind, protoreflect.Sfixed64Kind:
		return protoreflect.ValueOfInt64(genInt64(t, label))
	case protoreflect.Uint32Kind, protoreflect.Fixed32Kind:
		return protoreflect.ValueOfUint32(uint32(genInt64(t, label)))
	case protoreflect.Uint64Kind, protoreflect.Fixed64Kind:
		return protoreflect.ValueOfUint64(uint64(genInt64(t, label)))
	case protoreflect.FloatKind:
		f := genFloat64(t, label)
		return protoreflect.ValueOfFloat32(float32(f))
	case protoreflect.DoubleKind:
		return protoreflect.ValueOfFloat64(genFloat64(t, label))
	case protoreflect.StringKind:
		return protoreflect.ValueOfString(genString(t, label, o.maxBlob))
	case protoreflect.BytesKind:
		return protoreflect.ValueOfBytes(genBytes(t, label, o.maxBlob))
	case protoreflect.EnumKind:
		vals := fd.Enum().Values()
		if !o.noUnknownEnum && rapid.IntRange(0, 9).Draw(t, label+"_unk") == 0 {
			return protoreflect.ValueOfEnum(protoreflect.EnumNumber(rapid.IntRange(3, 9).Draw(t, label+"_num")))
		}
		return protoreflect.ValueOfEnum(vals.Get(rapid.IntRange(0, vals.Len()-1).Draw(t, label)).Number())
	}
	panic("genScalar: unexpected kind " + fd.Kind().String())
}

var fieldMaskPool = []string{"a", "foo", "foo_bar", "a.b", "user.display_name", "x.y.z"}

// fillWKT populates well-known types inside their JSON-valid ranges. Returns
// false if the message is not a special case.
func fillWKT(t *rapid.T, m protoreflect.Message, label string, depth int, o msgOpts) bool {
	fs := m.Descriptor().Fields()
	switch m.Descriptor().FullName() {
	case "google.protobuf.Timestamp":
		secs := rapid.Int64Range(-62135596800, 253402300799).Draw(t, label+"_s")
		if rapid.Bool().Draw(t, label+"_sp") {
			secs = rapid.SampledFrom([]int64{0, 1, -1, 1700000000, -62135596800, 253402300799}).Draw(t, label+"_spool")
		}
		nanos := rapid.SampledFrom([]int32{0, 1, 999999999, 500000000, 123456789, 120000000}).Draw(t, label+"_n")
		m.Set(fs.ByName("seconds"), protoreflect.ValueOfInt64(secs))
		m.Set(fs.ByName("nanos"), protoreflect.ValueOfInt32(nanos))
		return true
	case "google.protobuf.Duration":
		secs := rapid.Int64Range(-315576000000, 315576000000).Draw(t, label+"_s")
		if rapid.Bool().Draw(t, label+"_sp") {
			secs = rapid.SampledFrom([]int64{0, 1, -1, 3600, 315576000000, -315576000000}).Draw(t, label+"_spool")
		}
		nanos := rapid.SampledFrom([]int32{0, 1, 999999999, 500000000, 123456789}).Draw(t, label+"_n")
		if secs < 0 {
			nanos = -nanos
		} else if secs == 0 && rapid.Bool().Draw(t, label+"_neg") {
			nanos = -nanos
		}
		m.Set(fs.ByName("seconds"), protoreflect.ValueOfInt64(secs))
		m.Set(fs.ByName("nanos"), protoreflect.ValueOfInt32(nanos))
		return true
	case "google.protobuf.FieldMask":
		n := rapid.IntRange(0, 3).Draw(t, label+"_n")
		l := m.Mutable(fs.ByName("paths")).List()
		for i := 0; i < n; i++ {
			l.Append(protoreflect.ValueOfString(rapid.SampledFrom(fieldMaskPool).Draw(t, label+"_p")))
		}
		return true
	case "google.protobuf.Value":
		fillValue(t, m, label, depth)
		return true
	case "google.protobuf.Struct":
		fillStruct(t, m, label, depth)
		return true
	case "google.protobuf.ListValue":
		n := rapid.IntRange(0, 2).Draw(t, label+"_n")
		l := m.Mutable(fs.ByName("values")).List()
		for i := 0; i < n; i++ {
			e := l.NewElement()
			fillValue(t, e.Message(), label+"_e", depth+1)
			l.Append(e)
		}
		return true
	case "google.protobuf.Any":
		// a message of a type every resolver involved can find (well-known types and google.rpc are
		// linked in), under a type URL with one of several prefixes: resolution goes by what follows
		// the last slash
		var inner proto.Message
		switch rapid.IntRange(0, 4).Draw(t, label+"_any_kind") {
		case 0:
			return true // left empty
		case 1:
			inner = durationpb.New(time.Duration(rapid.Int64Range(-1e15, 1e15).Draw(t, label+"_any_dur")))
		case 2:
			inner = wrapperspb.String(genString(t, label+"_any_str", 12))
		case 3:
			inner = &errdetails.ErrorInfo{Reason: genString(t, label+"_any_reason", 8), Domain: "bench.test"}
		default:
			inner = timestamppb.New(time.Unix(rapid.Int64Range(0, 4e9).Draw(t, label+"_any_ts"), 0))
		}
		val, _ := proto.MarshalOptions{Deterministic: true}.Marshal(inner)
		prefix := rapid.SampledFrom([]string{"type.googleapis.com/", "type.googleapis.com/", "types.example.com/acme/", "example.com/", "/"}).Draw(t, label+"_any_prefix")
		m.Set(fs.ByName("type_url"), protoreflect.ValueOfString(prefix+string(inner.ProtoReflect().Descriptor().FullName())))
		m.Set(fs.ByName("value"), protoreflect.ValueOfBytes(val))
		return true
	case "google.api.HttpBody":
		m.Set(fs.ByName("content_type"), protoreflect.ValueOfString(rapid.SampledFrom([]string{
			"text/plain", "application/octet-stream", "image/png", "text/html; charset=utf-8", "application/json", "application/x-custom+thing"}).Draw(t, label+"_ct")))
		m.Set(fs.ByName("data"), protoreflect.ValueOfBytes(genBytes(t, label+"_data", o.maxBlob*4)))
		return true
	}
	return false
}

func fillValue(t *rapid.T, m protoreflect.Message, label string, depth int) {
	fs := m.Descriptor().Fields()
	k := rapid.IntRange(0, 5).Draw(t, label+"_kind")
	if depth >= 2 && k >= 4 {
		k = 2
	}
	switch k {
	case 0:
		m.Set(fs.ByName("null_value"), protoreflect.ValueOfEnum(0))
	case 1:
		f := rapid.SampledFrom([]float64{0, 1, -1.5, 1e21, 123456789, 0.1}).Draw(t, label+"_num")
		m.Set(fs.ByName("number_value"), protoreflect.ValueOfFloat64(f))
	case 2:
		m.Set(fs.ByName("string_value"), protoreflect.ValueOfString(genString(t, label+"_str", 12)))
	case 3:
		m.Set(fs.ByName("bool_value"), protoreflect.ValueOfBool(rapid.Bool().Draw(t, label+"_b")))
	case 4:
		fillStruct(t, m.Mutable(fs.ByName("struct_value")).Message(), label+"_st", depth+1)
	case 5:
		l := m.Mutable(fs.ByName("list_value")).Message()
		n := rapid.IntRange(0, 2).Draw(t, label+"_ln")
		lv := l.Mutable(l.Descriptor().Fields().ByName("values")).List()
		for i := 0; i < n; i++ {
			e := lv.NewElement()
			fillValue(t, e.Message(), label+"_le", depth+1)
			lv.Append(e)
		}
	}
}

func fillStruct(t *rapid.T, m protoreflect.Message, label string, depth int) {
	fd := m.Descriptor().Fields().ByName("fields")
	mp := m.Mutable(fd).Map()
	n := rapid.IntRange(0, 2).Draw(t, label+"_n")
	for i := 0; i < n; i++ {
		k := rapid.SampledFrom([]string{"a", "b c", "ü", ""}).Draw(t, label+"_k")
		v := mp.NewValue()
		fillValue(t, v.Message(), label+"_v", depth+1)
		mp.Set(protoreflect.ValueOfString(k).MapKey(), v)
	}
}

func fillMessage(t *rapid.T, m protoreflect.Message, label string, depth int, o msgOpts) {
	if fillWKT(t, m, label, depth, o) {
		return
	}
	fs := m.Descriptor().Fields()
	if fs.Len() == 0 {
		return
	}
	n := rapid.IntRange(0, o.maxFields).Draw(t, label+"_nf")
	if depth > 0 && n > 3 {
		n = 3
	}
	for i := 0; i < n; i++ {
		fd := fs.Get(rapid.IntRange(0, fs.Len()-1).Draw(t, label+"_fi"))
		fl := label + "." + string(fd.Name())
		switch {
		case fd.IsMap():
			mp := m.Mutable(fd).Map()
			cnt := rapid.IntRange(0, 3).Draw(t, fl+"_n")
			for j := 0; j < cnt; j++ {
				k := genScalar(t, fd.MapKey(), fl+"_k", o).MapKey()
				var v protoreflect.Value
				if fd.MapValue().Kind() == protoreflect.MessageKind {
					v = mp.NewValue()
					if depth < o.maxDepth {
						fillMessage(t, v.Message(), fl+"_v", depth+1, o)
					}
				} else {
					v = genScalar(t, fd.MapValue(), fl+"_v", o)
				}
				mp.Set(k, v)
			}
		case fd.IsList():
			l := m.Mutable(fd).List()
			cnt := rapid.IntRange(0, 4).Draw(t, fl+"_n")
			for j := 0; j < cnt; j++ {
				if fd.Kind() == protoreflect.MessageKind {
					e := l.NewElement()
					if depth < o.maxDepth {
						fillMessage(t, e.Message(), fl+"_e", depth+1, o)
					} else {
						fillWKT(t, e.Message(), fl+"_e", depth+1, o)
					}
					l.Append(e)
				} else {
					l.Append(genScalar(t, fd, fl+"_e", o))
				}
			}
		case fd.Kind() == protoreflect.MessageKind:
			sub := m.Mutable(fd).Message()
			if depth < o.maxDepth {
				fillMessage(t, sub, fl, depth+1, o)
			} else {
				fillWKT(t, sub, fl, depth+1, o)
			}
			// google.protobuf.Value must have a kind; Mutable() on it without fill is invalid JSON
		case fd.Kind() == protoreflect.GroupKind:
		default:
			m.Set(fd, genScalar(t, fd, fl, o))
		}
	}
}

// genMessage draws a message of the named type.
func genMessage(t *rapid.T, typeName, label string, o msgOpts) proto.Message {
	m := newMessage(typeName)
	fillMessage(t, m.ProtoReflect(), label, 0, o)
	return m
}

func mustMarshal(m proto.Message) []byte {
	b, err := proto.MarshalOptions{Deterministic: true}.Marshal(m)
	if err != nil {
		panic("verifbench: generated message does not marshal: " + err.Error())
	}
	return b
}

func valueOfString(s string) protoreflect.Value { return protoreflect.ValueOfString(s) }

func valueOfInt32(v int32) protoreflect.Value { return protoreflect.ValueOfInt32(v) }
