package verifbench

import (
	"fmt"
	"strings"
	"testing"

	"pgregory.net/rapid"
)

// C11 - no input from client or backend can crash or wedge the transcoder.

const ruleC11 = "rapid draws hostile exchanges: a valid scenario is mutated on the client side (request-target replaced by hostile paths, arbitrary HTTP method, control headers overwritten with garbage / duplicated, body faults, or a completely raw request with arbitrary bytes) and on the backend side (any status incl. 0/99/1000, arbitrary headers incl. numeric and non-numeric grpc-status, wrong Content-Length, arbitrary body bytes and write patterns, missing status, early return, writes and WriteHeader after the end, handler panic), also with a ResponseWriter that is no http.Flusher. Oracle: no panic originating in package vanguard (a scripted handler panic must propagate unchanged), ServeHTTP returns within the watchdog, at most one response head with a status in 100-999 on the underlying writer, and a declared Content-Length equal to the bytes written. Non-trivial = the request passed classification and reached a handler, or the backend reply violated its protocol; distinct by hash(mutations, outcome)."

func init() { registerScenarioProp("C11", ruleC11, checkC11) }

var hostileTargets = []string{
	"/", "//", "/%", "/%zz", "/%2", "/a%2Fb", "/:", "/a:", "/a:b:c", "/v1/unary:", "/v1/get/:post", "/v1/get/%2F%2F", "/v1/files/:upload", "/v1/files/a/b/c:download",
	"/verif.v1.Bench/", "/verif.v1.Bench", "/verif.v1.Bench/Unary/x", "/verif.v1.Bench/Unary?connect=v1", "/verif.v1.Bench/UnaryGet?connect=v1&encoding=proto&message=%%%",
	"/verif.v1.Bench/UnaryGet?connect=v1&encoding=json&message={}&base64=1", "/verif.v1.Bench/UnaryGet?connect=v1&encoding=proto&base64=1&message=!!!!", "/verif.v1.Bench/UnaryGet?connect=v1&encoding=json&compression=gzip&message=abc",
	"/v1/params?double_value=1e999&int32_value=99999999999", "/v1/params?nested.double_value_wrapper=x&recursive.recursive.recursive.string_value=a", "/v1/params?double_value_list=1&double_value_list=x&enum_list=9",
	"/v1/params?string_map=a", "/v1/params?struct_value=1", "/v1/params?value=null", "/v1/params?recursive_list=1", "/v1/params?timestamp=9999999999&duration=x&field_mask=,,,",
	"/v1/params/ENUM_VALUE/x/a/q/b/", "/v1/params/5/x/a//b/c:del", "/v1/get/" + strings.Repeat("a", 3000), "/v1/multi/" + strings.Repeat("x/", 300), "*", "/v1/unary?" + strings.Repeat("a=b&", 200),
	"/v1/field/a/notanumber", "/v1/field/a/2147483648", "/v1/page/%00", "/v1/page/%ff%fe", "/v1/params?bytes_value=%%", "/v1/params?bytes_value=!!!", "/v1/params?oneof_double_value=1&oneof_enum_value=ENUM_VALUE",
	// malformed field paths in query parameters
	"/v1/params?string_value.=x", "/v1/params?nested.=x", "/v1/params?.string_value=x", "/v1/params?nested..string_value=x", "/v1/params?.=x", "/v1/params?=x", "/v1/params?nested.double_value_wrapper.=1",
	"/v1/get/a?string_value.=x", "/v1/params?recursive.recursive.=1", "/v1/params?double_value_list.=1", "/v1/params?string_map.a=b", "/v1/params?timestamp.seconds=1", "/v1/params?[0]=1", "/v1/params?nested[double_value]=1",
}

var hostileHeaderValues = []string{"", " ", "x", "application/grpc+", "application/grpc-web+", "application/connect+", "application/", "application/json; charset=utf-8", "application/json;", "gzip, gzip", "identity", "br",
	"-1", "99999999999999999999", "1e9", "0x10", "NaN", "1H1", "H", "18446744073709551616", "text/plain; boundary=x", "application/grpc+proto, application/json", "\t", "trailers, chunked"}

var hostileHeaderNames = []string{"Content-Type", "Content-Encoding", "Accept-Encoding", "Grpc-Encoding", "Grpc-Accept-Encoding", "Grpc-Timeout", "Connect-Timeout-Ms", "X-Server-Timeout",
	"Connect-Protocol-Version", "Connect-Content-Encoding", "Connect-Accept-Encoding", "Te", "Content-Length", "Trailer", "Transfer-Encoding", "Grpc-Status", "Grpc-Message"}

func genHostile(t *rapid.T, sc *Scenario) {
	c, b := &sc.Client, &sc.Backend
	nm := rapid.IntRange(1, 4).Draw(t, "n_mutations")
	for i := 0; i < nm; i++ {
		switch rapid.IntRange(0, 9).Draw(t, "mutation") {
		case 0:
			c.TargetOverride = rapid.SampledFrom(hostileTargets).Draw(t, "hostile_target")
			sc.Note += "target;"
		case 1:
			c.MethodOverride = rapid.SampledFrom([]string{"GET", "POST", "PUT", "DELETE", "PATCH", "HEAD", "OPTIONS", "CONNECT", "TRACE", "PRI", "get", "X-CUSTOM"}).Draw(t, "hostile_method")
			sc.Note += "method;"
		case 2:
			name := rapid.SampledFrom(hostileHeaderNames).Draw(t, "hostile_hname")
			if name == "Content-Length" || name == "Transfer-Encoding" {
				name = "Grpc-Timeout"
			}
			c.Override = append(c.Override, KV{name, rapid.SampledFrom(hostileHeaderValues).Draw(t, "hostile_hvalue")})
			sc.Note += "header;"
		case 3:
			name := rapid.SampledFrom(hostileHeaderNames[:12]).Draw(t, "dup_hname")
			c.Headers = append(c.Headers, KV{name, rapid.SampledFrom(hostileHeaderValues).Draw(t, "dup_hvalue")})
			sc.Note += "dup_header;"
		case 4:
			c.Fault = genFault(t, requestFaults)
			sc.Note += "req_fault;"
		case 5:
			c.UseRaw = true
			c.RawMethod = rapid.SampledFrom([]string{"POST", "GET", "PUT"}).Draw(t, "raw_method")
			c.RawTarget = rapid.SampledFrom(append([]string{"/verif.v1.Bench/Unary", "/verif.v1.Bench/Bidi", "/verif.v1.Bench/UnaryGet", "/v1/unary", "/v1/params"}, hostileTargets...)).Draw(t, "raw_target")
			c.RawHeader = []KV{{"Content-Type", rapid.SampledFrom([]string{"application/grpc", "application/grpc+json", "application/grpc-web", "application/connect+proto", "application/json", "application/proto", "text/plain", "application/x-protobuf"}).Draw(t, "raw_ct")}}
			if rapid.Bool().Draw(t, "raw_version") {
				c.RawHeader = append(c.RawHeader, KV{"Connect-Protocol-Version", "1"})
			}
			if rapid.Bool().Draw(t, "raw_enc") {
				c.RawHeader = append(c.RawHeader, KV{rapid.SampledFrom([]string{"Grpc-Encoding", "Content-Encoding", "Connect-Content-Encoding"}).Draw(t, "raw_enc_h"), rapid.SampledFrom([]string{"gzip", "deflate", "identity"}).Draw(t, "raw_enc_v")})
			}
			c.RawBody = rapid.SliceOfN(rapid.Byte(), 0, 200).Draw(t, "raw_bytes")
			if rapid.Bool().Draw(t, "raw_framed") && len(c.RawBody) >= 5 {
				// make the first 5 bytes a plausible envelope
				c.RawBody[0] = byte(rapid.IntRange(0, 3).Draw(t, "raw_flag"))
				n := rapid.IntRange(0, len(c.RawBody)-5+3).Draw(t, "raw_len")
				c.RawBody[1], c.RawBody[2], c.RawBody[3], c.RawBody[4] = 0, 0, byte(n>>8), byte(n)
			}
			sc.Note += "raw_request;"
		case 6:
			b.Kind = "raw"
			b.HTTPStatus = rapid.SampledFrom([]int{0, 1, 99, 100, 101, 103, 199, 200, 200, 200, 204, 304, 404, 500, 999, 1000, -1, 65536}).Draw(t, "hostile_status")
			b.RawCT = rapid.SampledFrom([]string{"", "application/grpc", "application/grpc+proto", "application/grpc-web+proto", "application/connect+proto", "application/json", "application/proto", "text/html", "application/grpc+json"}).Draw(t, "hostile_resp_ct")
			nh := rapid.IntRange(0, 3).Draw(t, "hostile_nh")
			b.RawHeaders = nil
			for j := 0; j < nh; j++ {
				b.RawHeaders = append(b.RawHeaders, KV{
					rapid.SampledFrom([]string{"Grpc-Status", "Grpc-Message", "Grpc-Status-Details-Bin", "Content-Length", "Content-Encoding", "Grpc-Encoding", "Connect-Content-Encoding", "Trailer", "Trailer-X", "X-Ok", "Trailer:Grpc-Status"}).Draw(t, "hostile_rh"),
					rapid.SampledFrom([]string{"0", "17", "99", "4294967295", "4294967296", "-1", "abc", "", "%zz", "%", "gzip", "zstd", "!!!", "5", "999999999999", "Grpc-Status, X", "AAEC"}).Draw(t, "hostile_rv")})
			}
			b.RawBody = rapid.SliceOfN(rapid.Byte(), 0, 120).Draw(t, "hostile_resp_body")
			if rapid.Bool().Draw(t, "hostile_framed") && len(b.RawBody) >= 5 {
				b.RawBody[0] = byte(rapid.SampledFrom([]int{0, 1, 2, 3, 0x80, 0x81, 9}).Draw(t, "hostile_flag"))
				n := rapid.IntRange(0, len(b.RawBody)-5+3).Draw(t, "hostile_len")
				b.RawBody[1], b.RawBody[2], b.RawBody[3], b.RawBody[4] = 0, 0, byte(n>>8), byte(n)
			}
			sc.Note += "raw_response;"
		case 7:
			b.Fault = genFault(t, append(responseFaults, FaultExtraData))
			sc.Note += "resp_fault;"
		case 8:
			b.WriteAfter = true
			b.CodeRaw = rapid.SampledFrom(rawCodes).Draw(t, "hostile_code")
			if b.Kind == "ok" {
				b.Kind = "error"
				b.Err = &ErrSpec{Code: 2, Message: "hostile"}
			}
			sc.Note += "write_after;"
		case 9:
			b.Panic = rapid.IntRange(0, 2).Draw(t, "panic") == 0
			b.IgnoreReadErr = true
			if rapid.IntRange(0, 2).Draw(t, "hostile_grpc_message") == 0 {
				// a malformed percent-encoding in grpc-message (header position: trailers-only answers)
				b.Override = append(b.Override, KV{"Grpc-Message", rapid.SampledFrom([]string{"%", "%%", "a%%", "%%%%%%", "%e", "%C3", "%C3%", "100%", "%zz%zz", "%%a"}).Draw(t, "hostile_grpc_message_v")})
				if rapid.Bool().Draw(t, "hostile_force_trailers_only") {
					b.Kind, b.Msgs, b.MsgRaw = "trailers_only", nil, nil
					if b.Err == nil {
						b.Err = &ErrSpec{Code: 2, Message: "x"}
					}
				}
			}
			b.Override = append(b.Override, KV{rapid.SampledFrom([]string{"Content-Type", "Content-Length", "Grpc-Encoding", "Content-Encoding"}).Draw(t, "hostile_override"),
				rapid.SampledFrom([]string{"text/plain", "7", "-3", "abc", "zstd", "application/grpc+bogus", "99999999999999999999"}).Draw(t, "hostile_override_v")})
			sc.Note += "override;"
		}
	}
}

func TestC11(t *testing.T) { rapid.Check(t, propC11) }

func propC11(t *rapid.T) {
	{
		o := genOpts{maxBlob: 12, backendKinds: []string{"ok", "ok", "error", "trailers_only", "http_status"}, segmentation: rapid.IntRange(0, 2).Draw(t, "use_segmentation") == 0}
		sc := genScenario(t, o)
		// never the default limit (4 GiB): a hostile length prefix then makes the transcoder allocate
		// gigabytes up front, which is within the configured limit but turns a loaded machine's
		// slowness into apparent hangs
		sc.Config.MaxMsg = uint32(rapid.SampledFrom([]int{1 << 22, 1 << 20, 1 << 20, 64, 1024}).Draw(t, "limit"))
		sc.Config.Unknown = rapid.IntRange(0, 3).Draw(t, "unknown_handler") == 0
		genHostile(t, sc)
		if rapid.IntRange(0, 9).Draw(t, "no_flusher") == 0 {
			sc.Note += "no_flusher;"
		}
		judge(t, "C11", sc, checkC11(sc))
	}
}

func checkC11(sc *Scenario) *CheckResult {
	res := &CheckResult{}
	out := runScenarioOpts(sc, nil, strings.Contains(sc.Note, "no_flusher;"))
	if out.BuildErr != "" {
		res.class("unsendable")
		res.Skipped = true
		return res
	}
	if out.ConfigErr != "" {
		res.Skipped = true
		return res
	}
	reached := out.Invocations+out.UnknownCalls > 0
	res.class("mutations=%s reached=%v", sc.Note, reached)
	res.NonTrivial = reached || strings.Contains(sc.Note, "raw_response") || strings.Contains(sc.Note, "resp_fault")
	status := 0
	if out.Rec != nil {
		status = out.Rec.Status
	}
	res.Key = fmt.Sprintf("%s|%v|%d|%s|%x|%s", sc.Note, reached, status, sc.Client.TargetOverride, sc.Backend.RawBody, sc.Client.Form)
	res.Sample = map[string]any{"mutations": sc.Note, "form": sc.Client.Form, "handler_reached": reached, "client_status": status, "backend_kind": sc.Backend.Kind, "backend_status": sc.Backend.HTTPStatus}
	if out.Hang && out.HangWhy != "" {
		res.violate("hang", "hang", "the exchange wedged: %s (mutations %s)", out.HangWhy, sc.Note)
		return res
	}
	if out.Hang {
		res.violate("hang", "hang", "ServeHTTP did not return within %s although both peers had finished (mutations %s)", watchdog, sc.Note)
		return res
	}
	if out.Panic != "" {
		if out.PanicScripted {
			if !sc.Backend.Panic {
				res.violate("harness", "harness", "scripted panic without script")
			}
		} else {
			panicViolation(res, out)
		}
		return res
	}
	if sc.Backend.Panic && out.Invocations+out.UnknownCalls > 0 {
		res.violate("panic_swallowed", "c11:panic_swallowed", "the handler panicked (scripted) but ServeHTTP returned normally: the panic did not propagate")
	}
	// the transcoder's own use of the underlying writer
	if !out.Direct {
		for _, a := range out.Rec.Anomalies {
			res.violate("bad_writer_use", "c11:writer", "underlying ResponseWriter misuse: %s (mutations %s)", a, sc.Note)
		}
		if out.Rec.Wrote && (out.Rec.Status < 100 || out.Rec.Status > 999) {
			res.violate("bad_status", "c11:writer", "response head with status %d", out.Rec.Status)
		}
		if cl := out.Rec.Head.Get("Content-Length"); cl != "" && out.Rec.Wrote && out.Rec.Status != 204 && out.Rec.Status != 304 {
			if cl != fmt.Sprint(out.Rec.Body.Len()) {
				res.violate("content_length", "c11:content_length", "response declares Content-Length %s but %d bytes were written: a standard HTTP stack cannot frame it", cl, out.Rec.Body.Len())
			}
		}
	}
	return res
}
