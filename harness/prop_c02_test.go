package verifbench

import (
	"fmt"
	"strings"
	"testing"

	"pgregory.net/rapid"
)

// C02 - the backend sees only valid requests in a protocol, codec and
// compression it accepts.

const ruleC02 = "rapid draws valid client requests (6 forms) against every non-empty target-protocol subset x 8 codec lists x 5 compression lists, with accept-compression lists, timeouts, per-frame compressed flags, a drawn GET URL limit (a GET toward a Connect backend may have to become a POST) and, for HTTP/1.1 clients, a TE header of their own. Oracle: strict per-protocol validator of the *http.Request and body bytes the service handler received (request line, HTTP version, content-type, control-header grammar, envelope flags/lengths, declared compression vs bytes, payload decodes) plus the negotiation rules (member of the configured set; the client's own choice kept when acceptable) and contradiction check on left-over control headers. Non-trivial = handler invoked with protocol, codec or compression different from the client's; distinct by hash(config, client triple, frame flags, backend triple)."

func init() { registerScenarioProp("C02", ruleC02, checkC02) }

func TestC02(t *testing.T) {
	rapid.Check(t, func(t *rapid.T) {
		o := genOpts{segmentation: rapid.IntRange(0, 4).Draw(t, "use_segmentation") == 0, maxBlob: 16}
		sc := genScenario(t, o)
		if rapid.IntRange(0, 2).Draw(t, "with_timeout") == 0 {
			sc.Client.Timeout = genValidTimeout(t, sc.Client.Form)
		}
		if sc.Client.Form != FormGRPC && !sc.Client.HTTP2 && rapid.IntRange(0, 7).Draw(t, "with_te") == 0 {
			// an HTTP/1.1 client that states which transfer codings it takes (libwww and curl --tr-encoding do);
			// whatever it says, a gRPC backend must be sent exactly "te: trailers"
			sc.Client.Headers = append(sc.Client.Headers, KV{"Te", rapid.SampledFrom([]string{"deflate", "deflate,gzip;q=0.3", "trailers, deflate", "gzip", "trailers"}).Draw(t, "te")})
		}
		judge(t, "C02", sc, checkC02(sc))
	})
}

// genValidTimeout draws a syntactically valid timeout for the form.
func genValidTimeout(t *rapid.T, form string) string {
	switch formProtocol(form) {
	case ProtoConnect:
		return rapid.SampledFrom([]string{"1", "1000", "0", "9999999999", "86400000", "250", "0000000001", "100", "100000", "100000000", "99999", "6000000", "360000000"}).Draw(t, "timeout_connect")
	case ProtoGRPC, ProtoGRPCWeb:
		return rapid.SampledFrom([]string{"1S", "1000m", "0n", "99999999u", "5M", "1H", "8H", "123456n", "00000001S", "9H", "99999999H", "480M", "481M", "28800S", "28801S"}).Draw(t, "timeout_grpc")
	}
	return rapid.SampledFrom([]string{"1", "0.5", "10", "3600", "0.001", "2.25", "0.1", "100", "100000", "0.0001", "6000", "360000"}).Draw(t, "timeout_rest")
}

var compressionHeaders = []string{"Content-Encoding", "Connect-Content-Encoding", "Grpc-Encoding"}

func ownCompressionHeader(v *BackendView) string {
	switch {
	case v.Protocol == ProtoGRPC || v.Protocol == ProtoGRPCWeb:
		return "Grpc-Encoding"
	case v.Protocol == ProtoConnect && v.Sub == "stream":
		return "Connect-Content-Encoding"
	case v.Protocol == ProtoConnect && v.Sub == "get":
		// body-less; a Content-Encoding repeating the query's compression is a harmless extra (DESIGN 2.1)
		return "Content-Encoding+query"
	}
	return "Content-Encoding"
}

func requestRawFrameSig(sc *Scenario, v *BackendView) string {
	return "c02:" + featureSig(sc, v, "request")
}

func checkC02(sc *Scenario) *CheckResult {
	res := &CheckResult{}
	out := runScenario(sc)
	if out.BuildErr != "" || out.ConfigErr != "" {
		res.Skipped = true
		return res
	}
	if panicViolation(res, out) {
		return res
	}
	v := out.Backend
	c := &sc.Client
	cfg := &sc.Config
	ct := clientTriple(c, out.Sent)
	res.class("form=%s target=%s", c.Form, strings.SplitN(v.triple(), "+", 2)[0])
	if v == nil {
		res.class("not_invoked outcome=%s", out.Client.outcome())
		return res
	}
	bt := v.triple()
	res.Key = fmt.Sprintf("%v|%v|%v|%s|%v|%s", cfg.Protocols, cfg.Codecs, cfg.Compressions, ct, c.MsgRaw, bt)
	res.NonTrivial = ct != bt
	res.Sample = map[string]any{"config": cfg, "client": ct, "backend": bt, "method": c.Method, "request_line": v.Snap.Method + " " + v.EscapedPath + "?" + v.Snap.RawQuery,
		"backend_headers": headerString(v.Header), "frames": len(v.Frames)}
	sig := requestRawFrameSig(sc, v)
	// 1. syntactic validity
	if v.ReadErr != "" {
		res.violate("body_read_error", sig, "handler's Body.Read failed on a valid client request: %s", v.ReadErr)
	}
	for _, p := range v.Problems {
		res.violate("invalid_request", sig, "backend request is not valid %s: %s", v.Protocol, p)
	}
	// method identity
	if v.MI == nil || v.MI.Name != c.Method {
		got := "<none>"
		if v.MI != nil {
			got = v.MI.Name
		}
		res.violate("wrong_method", "c02:wrong_method", "client called %s, backend request addresses %s", c.Method, got)
	}
	// 2. negotiation
	cp := formProtocol(c.Form)
	if !contains(cfg.Protocols, v.Protocol) {
		res.violate("protocol_not_accepted", "c02:protocol", "backend protocol %s is not among the configured %v", v.Protocol, cfg.Protocols)
	}
	if contains(cfg.Protocols, cp) && v.Protocol != cp {
		res.violate("protocol_not_kept", "c02:protocol", "client protocol %s is accepted by the service but the request was converted to %s", cp, v.Protocol)
	}
	if v.Protocol == ProtoConnect && v.MI != nil {
		unary := !v.MI.CStream && !v.MI.SStream
		if unary != (v.Sub != "stream") {
			res.violate("connect_flavour", "c02:protocol", "method %s (unary=%v) was sent as connect %s", v.MI.Name, unary, v.Sub)
		}
	}
	if v.Protocol == ProtoREST {
		if v.Codec != CodecJSON {
			res.violate("codec", "c02:codec", "REST backend codec is %q", v.Codec)
		}
	} else {
		if !contains(cfg.Codecs, v.Codec) {
			res.violate("codec_not_accepted", "c02:codec", "backend codec %q is not among the configured %v", v.Codec, cfg.Codecs)
		}
		if contains(cfg.Codecs, c.Codec) && v.Codec != c.Codec {
			res.violate("codec_not_kept", "c02:codec", "client codec %q is accepted by the service but the request was re-encoded as %q", c.Codec, v.Codec)
		}
	}
	if v.Compression != "" && !contains(cfg.Compressions, v.Compression) {
		res.violate("compression_not_accepted", "c02:compression", "backend compression %q is not among the configured %v", v.Compression, cfg.Compressions)
	}
	cc := c.Compression
	if c.Form == FormREST && out.Sent.REST != nil && !out.Sent.REST.HasBody {
		cc = "" // a body-less REST request declares no compression at all
	}
	if cc != "" && contains(cfg.Compressions, cc) && v.Compression != cc {
		res.violate("compression_not_kept", "c02:compression", "client compression %q is accepted by the service but the backend request declares %q", cc, v.Compression)
	}
	if cc == "" && v.Compression != "" {
		res.violate("compression_invented", "c02:compression", "client sent no compression but the backend request declares %q", v.Compression)
	}
	// 3. left-over control headers
	own := ownCompressionHeader(v)
	for _, h := range compressionHeaders {
		if h == own {
			continue
		}
		for _, val := range v.Header.Values(h) {
			if val != "" && val != "identity" && val != v.Compression {
				res.violate("leftover_header", "c02:leftover", "left-over %s: %s contradicts the %s request (effective compression %q)", h, val, v.Protocol, v.Compression)
			}
			if h == "Content-Encoding" && own != "Content-Encoding" && own != "Content-Encoding+query" && val != "" && val != "identity" {
				res.violate("leftover_header", "c02:leftover", "Content-Encoding: %s on a %s/%s request declares the whole body encoded", val, v.Protocol, v.Sub)
			}
		}
	}
	if c.Timeout == "" {
		for _, h := range []string{"Grpc-Timeout", "Connect-Timeout-Ms", "X-Server-Timeout"} {
			if len(v.Header.Values(h)) > 0 {
				res.violate("timeout_invented", "c02:timeout", "client sent no timeout but the backend sees %s: %q", h, v.Header.Values(h))
			}
		}
	} else if cp != v.Protocol {
		for _, h := range []string{"Grpc-Timeout", "Connect-Timeout-Ms"} {
			if h != v.TimeoutHdr && len(v.Header.Values(h)) > 0 {
				res.violate("leftover_header", "c02:leftover", "left-over %s: %q next to %s: %q", h, v.Header.Values(h), v.TimeoutHdr, v.Timeout)
			}
		}
	}
	// 4. declared length agrees with the bytes
	if cl := v.Header.Get("Content-Length"); cl != "" && cl != fmt.Sprint(len(v.Body)) {
		res.violate("content_length", "c02:content_length", "backend request declares Content-Length %s but the body has %d bytes", cl, len(v.Body))
	}
	if v.Snap.ContentLength >= 0 && v.Snap.ContentLength != int64(len(v.Body)) {
		res.violate("content_length", "c02:content_length", "backend request has ContentLength %d but the body has %d bytes", v.Snap.ContentLength, len(v.Body))
	}
	return res
}
