package verifbench

import (
	"fmt"
	"runtime"
	"strings"
	"sync/atomic"
	"testing"

	"google.golang.org/protobuf/reflect/protoreflect"
	"pgregory.net/rapid"
)

// C18 - at most one backend dispatch per request, none if rejected; context released.

const ruleC18 = "rapid draws requests of every rejection class of the statement (unclassifiable content-type, unknown method with and without unknown-endpoint handler, wrong HTTP method, gRPC or bidi over HTTP/1.1, unsupported codec, unsupported compression, stray Content-Encoding, malformed timeout, stream type the protocol cannot carry, undecodable leading message needed to build a REST / Connect-GET backend request) and of every exit path (success, pass-through, unknown handler, set-up error, mid-stream error, handler panic) x client forms x target configs. Oracle: instrumented service and unknown-endpoint handlers count invocations (<= 1 in total, 0 for rejected requests, whose status must be an error); the context the handler captured is cancelled once ServeHTTP has returned; gated request body and response writer record zero calls after return. Non-trivial = the request was rejected after method resolution or the exit path is not plain success; distinct by hash(class, form, target, exit path)."

func init() { registerScenarioProp("C18", ruleC18, checkC18) }

func TestC18(t *testing.T) {
	rapid.Check(t, func(t *rapid.T) {
		o := genOpts{maxBlob: 12, backendKinds: []string{"ok", "ok", "error", "http_status"}, segmentation: rapid.IntRange(0, 3).Draw(t, "use_segmentation") == 0}
		sc := genScenario(t, o)
		sc.Config.Unknown = rapid.Bool().Draw(t, "unknown_handler")
		switch rapid.IntRange(0, 3).Draw(t, "c18_class") {
		case 0:
			sc.Note = genRejection(t, sc)
		case 1:
			sc.Note = genRejection18(t, sc)
		case 2:
			if rapid.Bool().Draw(t, "backend_panics") {
				sc.Backend.Panic = true
				sc.Note = "exit:panic"
			} else {
				sc.Backend.Fault = genFault(t, responseFaults)
				sc.Config.MaxMsg = 1 << 20 // a corrupted length prefix must not make the transcoder allocate gigabytes (see C09)
				sc.Note = "exit:response_fault"
			}
		default:
			sc.Note = "exit:plain"
		}
		judge(t, "C18", sc, checkC18(sc))
	})
}

// genRejection18: the rejection classes not covered by genRejection.
func genRejection18(t *rapid.T, sc *Scenario) string {
	c := &sc.Client
	switch rapid.SampledFrom([]string{"wrong_http_method", "bidi_http1", "stray_content_encoding", "stream_type", "two_content_types", "bad_first_message", "truncated_first_message", "get_on_side_effects", "rest_wrong_method"}).Draw(t, "reject18") {
	case "truncated_first_message":
		// the stream stops at various points of the leading message that the REST request line needs
		if !formEnveloped(c.Form) {
			return ""
		}
		c.Method = rapid.SampledFrom([]string{"Unary", "Params", "UnaryGet"}).Draw(t, "trunc_method")
		mi := lookupMethod(benchService, c.Method)
		m := newMessage(mi.In)
		m.ProtoReflect().Set(m.ProtoReflect().Descriptor().Fields().ByName("string_value"), protoreflect.ValueOfString("leading"))
		c.Msgs = [][]byte{mustMarshal(m)}
		c.MsgRaw = []bool{true}
		sc.Config.Protocols = []string{ProtoREST}
		c.Fault = &Fault{Kind: FaultCut, At: rapid.SampledFrom([]int{1, 4, 5, 5, 5, 6, 8}).Draw(t, "trunc_at")}
		if rapid.Bool().Draw(t, "trunc_clean_eof") {
			c.Fault.Kind = FaultCutClean
		}
		return "pre:truncated_first_message"
	case "wrong_http_method":
		if c.Form == FormREST || c.Form == FormConnectGet {
			return ""
		}
		c.MethodOverride = rapid.SampledFrom([]string{"GET", "PUT", "DELETE", "PATCH", "HEAD", "OPTIONS"}).Draw(t, "bad_method")
		return "pre:wrong_http_method"
	case "bidi_http1":
		if c.Form == FormREST || c.Form == FormConnectUnary || c.Form == FormConnectGet || c.Form == FormGRPC {
			return ""
		}
		c.Method = "Bidi"
		c.HTTP2 = false
		return "pre:bidi_http1"
	case "stray_content_encoding":
		if !formEnveloped(c.Form) {
			return ""
		}
		c.Override = append(c.Override, KV{"Content-Encoding", "gzip"})
		return "pre:stray_content_encoding"
	case "stream_type":
		switch c.Form {
		case FormConnectUnary:
			c.Method = "ServerStream"
			c.TargetOverride = "/" + benchService + "/ServerStream"
		case FormConnectStream:
			c.Method = "Unary"
			c.TargetOverride = "/" + benchService + "/Unary"
		default:
			return ""
		}
		return "pre:stream_type"
	case "two_content_types":
		if c.Form == FormREST || c.Form == FormConnectGet {
			return ""
		}
		c.Headers = append(c.Headers, KV{"Content-Type", "application/json"})
		return "pre:two_content_types"
	case "bad_first_message":
		// the leading message is needed to build the backend request line
		if c.Form == FormREST || c.Form == FormConnectGet || len(c.Msgs) == 0 {
			return ""
		}
		if len(c.Msgs[0]) == 0 && (c.Codec == CodecProto || c.Codec == CodecText) && (c.Compression == "" || (len(c.MsgRaw) > 0 && c.MsgRaw[0])) {
			return ""
		}
		sc.Config.Protocols = []string{ProtoREST}
		if len(flatBindings(benchService, c.Method)) == 0 {
			return ""
		}
		c.Fault = &Fault{Kind: FaultGarbage, At: 0}
		return "pre:bad_first_message"
	case "get_on_side_effects":
		if c.Form != FormConnectGet {
			return ""
		}
		// unspecified, and explicitly IDEMPOTENT (which is not "side-effect-free" either)
		c.Method = rapid.SampledFrom([]string{"Unary", "UnaryIdem", "UnaryPlain"}).Draw(t, "get_method")
		if rapid.Bool().Draw(t, "get_with_unknown_handler") {
			sc.Config.Unknown = true // the refusal is the transcoder's to make, not a "no such endpoint" to hand on
		}
		return "pre:get_on_side_effects"
	case "rest_wrong_method":
		if c.Form != FormREST {
			return ""
		}
		c.MethodOverride = rapid.SampledFrom([]string{"OPTIONS", "HEAD", "TRACE", "LINK"}).Draw(t, "rest_bad_method")
		return "pre:rest_wrong_method"
	}
	return ""
}

func checkC18(sc *Scenario) *CheckResult {
	res := &CheckResult{}
	out := runScenario(sc)
	if out.BuildErr != "" || out.ConfigErr != "" {
		res.Skipped = true
		return res
	}
	if panicViolation(res, out) {
		return res
	}
	c := &sc.Client
	cv := out.Client
	exit := "plain"
	switch {
	case out.PanicScripted:
		exit = "panic"
	case out.UnknownCalls > 0:
		exit = "unknown_handler"
	case out.Invocations == 0:
		exit = "rejected"
	case out.Backend != nil && clientTriple(c, out.Sent) == out.Backend.triple():
		exit = "passthrough"
	case !cv.OK:
		exit = "error"
	}
	target := "-"
	if out.Backend != nil {
		target = out.Backend.Protocol
	}
	res.class("class=%s exit=%s form=%s status=%d", sc.Note, exit, c.Form, cv.Status)
	res.Key = fmt.Sprintf("%s|%s|%s|%s|%d", sc.Note, exit, c.Form, target, cv.Status)
	res.NonTrivial = exit != "plain"
	res.Sample = map[string]any{"class": sc.Note, "exit_path": exit, "form": c.Form, "request": out.Sent.Method + " " + out.Sent.Target, "status": cv.Status,
		"service_invocations": out.Invocations, "unknown_invocations": out.UnknownCalls}
	total := out.Invocations + out.UnknownCalls
	if total > 1 {
		res.violate("double_dispatch", "c18:double", "request caused %d service and %d unknown-endpoint handler invocations", out.Invocations, out.UnknownCalls)
	}
	if strings.HasPrefix(sc.Note, "pre:") {
		// (a request without any content-type is read as REST: its RPC-style path matches no route)
		delegatedToUnknown := (sc.Note == "pre:unknown_method" || sc.Note == "pre:unclassifiable") && sc.Config.Unknown
		if out.Invocations > 0 || (out.UnknownCalls > 0 && !delegatedToUnknown) {
			res.violate("dispatch_after_reject", "c18:rejected:"+sc.Note, "request of class %s must be rejected during validation but a handler ran (%d service, %d unknown)", sc.Note, out.Invocations, out.UnknownCalls)
		}
		if !delegatedToUnknown && total == 0 && (cv.OK || (cv.Status >= 200 && cv.Status < 300 && cv.HTTPLevel)) {
			res.violate("reject_without_error", "c18:rejected:"+sc.Note, "rejected request (%s) was answered with success (HTTP %d, outcome %s)", sc.Note, cv.Status, cv.outcome())
		}
	}
	if total == 0 && cv.OK {
		res.violate("ok_without_dispatch", "c18:ok_without_dispatch", "client observed OK although no handler ran")
	}
	// context released
	if out.HandlerCtx != nil {
		select {
		case <-out.HandlerCtx.Done():
		default:
			res.violate("context_not_cancelled", "c18:context:"+exit, "the request context handed to the handler is still live after ServeHTTP returned (exit path %s)", exit)
		}
	}
	// no reads or writes after return
	for i := 0; i < 3; i++ {
		runtime.Gosched()
	}
	if out.Body != nil {
		if n := atomic.LoadInt32(&out.Body.readsAfterDone); n > 0 {
			res.violate("late_read", "c18:late_io", "%d request body reads after ServeHTTP returned", n)
		}
	}
	if n := atomic.LoadInt32(&out.Rec.callsAfterDone); n > 0 {
		res.violate("late_write", "c18:late_io", "%d response writer calls after ServeHTTP returned", n)
	}
	return res
}
