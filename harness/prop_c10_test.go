package verifbench

import (
	"encoding/json"
	"fmt"
	"strings"
	"testing"

	"connectrpc.com/vanguard"
	"google.golang.org/protobuf/proto"
	"google.golang.org/protobuf/reflect/protoreflect"
	"pgregory.net/rapid"
)

// C10 - the message-size limit bounds buffering on every path.

const ruleC10 = "rapid draws a per-service limit L in {256 B .. 64 KiB} and one request or response message whose size is placed relative to L in a chosen representation (wire, decompressed, re-encoded, re-compressed): L-64, L-1, L, L+1, 2L, 10L, and highly compressible payloads inflating 20..1000 x; declared or undeclared lengths; every client form x target configuration, i.e. every adapter path. Oracles: (A1) the largest pooled buffer seen during the request (instrumented pool, tag verif) is <= 8L + 64 KiB and the bytes allocated during ServeHTTP (runtime.MemStats.TotalAlloc delta, single in-flight request) are <= 24L + 24 MiB; (A2) if every representation of every message is <= L - margin the RPC is not rejected with resource_exhausted; (A3) a message delivered in converted form had wire, decompressed and observed re-encoded size <= L; (A4) a size rejection carries resource_exhausted and the oversized message is not delivered; (A8) the message of an un-enveloped backend's error body larger than L is not delivered when the transcoder has to read that body; (A7) metadata of a compressed end-of-stream / trailer frame that inflates beyond L is not delivered when the transcoder has to read the frame; (A6) a request message whose plain form exceeds L and which the transcoder itself had to inflate never reaches the backend as a cleanly ending payload, not even truncated. Non-trivial = some representation within [L/2, 4L] or a compression ratio >= 20; distinct by hash(L, direction, sizes, client and backend triple)."

type sizeCase struct {
	Sc        Scenario `json:"scenario"`
	Direction string   `json:"direction"` // request | response
	Payload   int      `json:"payload"`   // size of the blob inside the message
	Compressible bool  `json:"compressible"`
	ErrorBody bool     `json:"error_body,omitempty"` // the big item is the error body of a Connect-unary / REST backend
	EndFrame  bool     `json:"end_frame,omitempty"` // the big item is the metadata of a compressed end-of-stream / trailer frame
}

func init() {
	registerProp(&propDef{ID: "C10", Rule: ruleC10, Replay: func(raw json.RawMessage) (*CheckResult, error) {
		var c sizeCase
		if err := json.Unmarshal(raw, &c); err != nil {
			return nil, err
		}
		return checkC10(&c), nil
	}})
}

// pseudoRandomBytes: incompressible, deterministic.
func pseudoRandomBytes(n int, seed uint64) []byte {
	out := make([]byte, n)
	x := seed*2862933555777941757 + 3037000493
	for i := range out {
		x ^= x << 13
		x ^= x >> 7
		x ^= x << 17
		out[i] = byte(x >> 32)
	}
	return out
}

func sizedMessage(typeName string, n int, compressible bool, seed uint64) proto.Message {
	m := newMessage(typeName)
	fs := m.ProtoReflect().Descriptor().Fields()
	if compressible {
		fd := fs.ByName("string_value")
		if fd == nil {
			fd = fs.ByName("note")
		}
		if fd == nil {
			fd = fs.ByName("name")
		}
		if fd != nil {
			m.ProtoReflect().Set(fd, valueOfString(strings.Repeat("a", n)))
		}
		return m
	}
	if fd := fs.ByName("bytes_value"); fd != nil {
		m.ProtoReflect().Set(fd, protoreflect.ValueOfBytes(pseudoRandomBytes(n, seed)))
		return m
	}
	if fd := fs.ByName("file"); fd != nil {
		hb := m.ProtoReflect().Mutable(fd).Message()
		hb.Set(hb.Descriptor().Fields().ByName("data"), protoreflect.ValueOfBytes(pseudoRandomBytes(n, seed)))
	}
	return m
}

func TestC10(t *testing.T) {
	rapid.Check(t, func(t *rapid.T) {
		o := genOpts{maxBlob: 8, noText: true, methods: []string{"Unary", "UnaryGet", "UnaryField", "UnaryMulti", "ClientStream", "ServerStream", "Bidi", "UnaryPlain"}}
		sc := genScenario(t, o)
		L := rapid.SampledFrom([]int{256, 1024, 4096, 16384, 65536}).Draw(t, "limit")
		sc.Config.MaxMsg = uint32(L)
		c := &sizeCase{Sc: *sc}
		c.Direction = rapid.SampledFrom([]string{"request", "response"}).Draw(t, "direction")
		c.Compressible = rapid.Bool().Draw(t, "compressible")
		switch rapid.IntRange(0, 8).Draw(t, "size_class") {
		case 0:
			c.Payload = L - 64
		case 1:
			c.Payload = L - rapid.IntRange(1, 12).Draw(t, "below")
		case 2:
			c.Payload = L
		case 3:
			c.Payload = L + rapid.IntRange(1, 12).Draw(t, "above")
		case 4:
			c.Payload = 2 * L
		case 5:
			c.Payload = 10 * L
		case 6:
			c.Payload = L / 2
		case 7:
			// (three quarters of L and a little more: where the base64 text of a message in a GET URL
			// crosses L while the message itself does not)
			c.Payload = L*3/4 + rapid.SampledFrom([]int{0, 8, L / 8, L / 6}).Draw(t, "above_three_quarters")
		default:
			// compression bomb: inflates far beyond L while the wire size stays small
			c.Compressible = true
			c.Payload = L * rapid.SampledFrom([]int{20, 100, 1000}).Draw(t, "ratio")
			if c.Payload > 48<<20 {
				c.Payload = 48 << 20
			}
		}
		if c.Payload < 0 {
			c.Payload = 0
		}
		if c.Direction == "request" && (c.Sc.Client.Form == FormConnectGet || (c.Sc.Client.Form == FormREST && !strings.Contains(c.Sc.Client.Method, "Put"))) && c.Payload > 256<<10 {
			// a message that travels in the URL cannot be larger than what an HTTP server lets through
			// (net/http: 1 MiB of request line and headers by default); the URL is in memory before the
			// transcoder sees the request
			c.Payload = 256 << 10 // (4 L for the largest limit drawn; base64 and JSON quoting add a third)
		}
		mi := lookupMethod(benchService, c.Sc.Client.Method)
		seed := uint64(rapid.IntRange(1, 1<<30).Draw(t, "blob_seed"))
		if c.Direction == "request" {
			if len(c.Sc.Client.Msgs) == 0 {
				c.Sc.Client.Msgs = [][]byte{nil}
			}
			i := rapid.IntRange(0, len(c.Sc.Client.Msgs)-1).Draw(t, "which_request")
			m := sizedMessage(mi.In, c.Payload, c.Compressible, seed)
			if c.Sc.Client.Form == FormREST {
				restProject(t, flatBindings(benchService, c.Sc.Client.Method)[c.Sc.Client.Binding%len(flatBindings(benchService, c.Sc.Client.Method))], m, "c10_proj")
			}
			c.Sc.Client.Msgs[i] = mustMarshal(m)
			if c.Compressible && c.Sc.Client.Compression == "" && rapid.Bool().Draw(t, "force_compress") && c.Sc.Client.Form != FormConnectGet {
				c.Sc.Client.Compression = CompGzip
			}
			c.Sc.Client.MsgRaw = make([]bool, len(c.Sc.Client.Msgs))
		} else {
			if len(c.Sc.Backend.Msgs) == 0 {
				c.Sc.Backend.Msgs = [][]byte{nil}
				c.Sc.Backend.MsgRaw = []bool{false}
			}
			i := rapid.IntRange(0, len(c.Sc.Backend.Msgs)-1).Draw(t, "which_response")
			c.Sc.Backend.Msgs[i] = mustMarshal(sizedMessage(mi.Out, c.Payload, c.Compressible, seed))
			c.Sc.Backend.Kind = "ok"
			if c.Compressible {
				c.Sc.Backend.Compress = true
				if len(c.Sc.Client.Accept) == 0 || (c.Sc.Client.Accept[0] != CompGzip && c.Sc.Client.Accept[0] != CompDeflate) {
					c.Sc.Client.Accept = []string{CompGzip}
				}
			}
			c.Sc.Backend.MsgRaw = make([]bool, len(c.Sc.Backend.Msgs))
			switch rapid.IntRange(0, 3).Draw(t, "resp_write_mode") {
			case 0:
				c.Sc.Backend.WriteChunk = rapid.SampledFrom([]int{1, 7, 100, 500, 1000}).Draw(t, "resp_chunk")
				if c.Payload > 1<<20 && c.Sc.Backend.WriteChunk < 100 {
					c.Sc.Backend.WriteChunk = 1000
				}
			case 1:
				c.Sc.Backend.WriteSplits = []int{5}
			}
		}
		if c.Direction == "response" && rapid.IntRange(0, 5).Draw(t, "end_frame_class") == 0 {
			// the end of the stream as the big item: metadata of highly compressible values in a
			// compressed gRPC-Web trailer frame / Connect end-of-stream frame (wire size small,
			// inflated size c.Payload)
			c.Sc.Backend.Msgs, c.Sc.Backend.MsgRaw = nil, nil
			if !mi.SStream {
				c.Sc.Backend.Msgs, c.Sc.Backend.MsgRaw = [][]byte{nil}, []bool{false}
			}
			c.Sc.Backend.Trailers = []KV{{"X-Big", strings.Repeat("a", c.Payload)}}
			c.Sc.Backend.Compress, c.Sc.Backend.CompressEnd = true, true
			c.Sc.Backend.TrailerStyle = "prefixed"
			if !contains(c.Sc.Client.Accept, CompGzip) {
				c.Sc.Client.Accept = []string{CompGzip}
			}
			c.EndFrame = true
			// only backends whose end travels in band (a message-like frame the limit applies to); the
			// HTTP trailers of a gRPC backend are bounded by the HTTP server, not by this limit
			c.Sc.Config.Protocols = []string{ProtoGRPCWeb}
			if (mi.CStream || mi.SStream) && rapid.Bool().Draw(t, "end_frame_connect") {
				c.Sc.Config.Protocols = []string{ProtoConnect}
			}
			c.Sc.Config.OtherOpts = nil
		}
		if c.Direction == "response" && !c.EndFrame && rapid.IntRange(0, 6).Draw(t, "error_body_class") == 0 {
			// the error body of an un-enveloped backend as the big item (the error-body adapter path):
			// an error whose message makes the JSON body about c.Payload bytes, written in chunks
			if c.Payload > 2<<20 {
				c.Payload = 2 << 20
			}
			c.Sc.Backend.Kind = "error"
			c.Sc.Backend.Msgs, c.Sc.Backend.MsgRaw = nil, nil
			c.Sc.Backend.Err = &ErrSpec{Code: int64(rapid.SampledFrom([]int{1, 2, 3, 4, 5, 6, 7, 9, 10, 11, 12, 13, 14, 15, 16}).Draw(t, "error_body_code")) /* not 8: a backend's own resource_exhausted could not be told from a rejection */, Message: strings.Repeat("e", c.Payload)}
			c.Sc.Backend.Compress, c.Sc.Backend.CompressError = c.Compressible, c.Compressible
			c.Sc.Backend.WriteChunk = rapid.SampledFrom([]int{0, 100, 200, 1000}).Draw(t, "error_body_chunk")
			c.Sc.Config.Protocols = []string{rapid.SampledFrom([]string{ProtoConnect, ProtoREST}).Draw(t, "error_body_target")}
			if mi.CStream || mi.SStream {
				c.Sc.Config.Protocols = []string{ProtoREST} // (a Connect stream carries its error in the end frame, see the end-frame class)
			}
			c.Sc.Config.OtherOpts = nil
			c.ErrorBody = true
		}
		judge(t, "C10", c, checkC10(c))
	})
}

func maxLen(bs [][]byte) int {
	m := 0
	for _, b := range bs {
		if len(b) > m {
			m = len(b)
		}
	}
	return m
}

func maxInts(xs []int) int {
	m := 0
	for _, x := range xs {
		if x > m {
			m = x
		}
	}
	return m
}

func restRequestBodyIsHTTPBody(view *BackendView) bool {
	md := messageDescriptor(view.MI.In)
	if view.Rule.Body == "*" {
		return isHTTPBody(md)
	}
	f := md.Fields().ByName(protoName(view.Rule.Body))
	return f != nil && f.Message() != nil && !f.IsList() && isHTTPBody(f.Message())
}

// responseFarBelow: a well-formed response none of whose messages comes near the limit in any encoding.
func responseFarBelow(sc *Scenario, out *Outcome, L int) bool {
	if sc.Backend.Kind != "ok" || sc.Backend.Fault != nil || out.Sent == nil || out.Sent.MI == nil {
		return false
	}
	for _, mb := range sc.Backend.Msgs {
		m := newMessage(out.Sent.MI.Out)
		if proto.Unmarshal(mb, m) != nil {
			return false
		}
		for _, codec := range []string{CodecProto, CodecJSON} {
			p, err := encodeMsg(codec, JSONStyle{EmitUnpopulated: true, Indent: true}, m)
			if err != nil || len(p) > L/2 {
				return false
			}
		}
	}
	return true
}

func checkC10(c *sizeCase) *CheckResult {
	res := &CheckResult{}
	sc := &c.Sc
	L := int(sc.Config.MaxMsg)
	vanguard.VerifPoolEnable(false, false)
	defer vanguard.VerifPoolDisable()
	measureAlloc = true
	out := runScenario(sc)
	measureAlloc = false
	st := vanguard.VerifPoolSnapshot(true)
	if out.BuildErr != "" || out.ConfigErr != "" {
		res.Skipped = true
		return res
	}
	if panicViolation(res, out) {
		return res
	}
	cv, view := out.Client, out.Backend
	ct := clientTriple(&sc.Client, out.Sent)
	bt := view.triple()
	path := "convert"
	if out.Direct {
		path = "passthrough"
	}
	// representation sizes known to the harness
	reqWire, reqPlain := 0, maxLen(out.Sent.Payloads)
	for _, f := range out.Sent.Frames {
		if len(f.Payload) > reqWire {
			reqWire = len(f.Payload)
		}
	}
	if !formEnveloped(sc.Client.Form) {
		reqWire = len(out.Sent.Body)
	}
	ratio := 1
	if reqWire > 0 && reqPlain/reqWire > ratio {
		ratio = reqPlain / reqWire
	}
	alloc := out.AllocBytes
	res.Key = fmt.Sprintf("%d|%s|%d|%v|%s|%s", L, c.Direction, c.Payload, c.Compressible, ct, bt)
	res.NonTrivial = (c.Payload >= L/2 && c.Payload <= 4*L) || ratio >= 20 || c.Payload >= 20*L
	res.class("dir=%s path=%s rel=%s outcome=%s", c.Direction, path, relClass(c.Payload, L), cv.outcome())
	res.Sample = map[string]any{"limit": L, "direction": c.Direction, "blob": c.Payload, "compressible": c.Compressible, "client": ct, "backend": bt,
		"request_wire": reqWire, "request_plain": reqPlain, "outcome": cv.outcome(), "pool_max_cap": st.MaxCap, "allocated": alloc}
	if sc.Client.Form == FormConnectGet && c.Direction == "request" && reqPlain*4/3 > L && reqPlain+16 <= L {
		// the message fits, its base64 text in the URL would not: the limit is about the message
		res.class("get_base64_window codec=%s compression=%s outcome=%s", sc.Client.Codec, sc.Client.Compression, cv.outcome())
	}
	if path == "passthrough" {
		return res
	}
	sig := "c10:" + c.Direction
	// A1: buffering is bounded by a small multiple of L
	// (a message that arrives in the URL is in memory, whole, before the transcoder runs, and its
	// re-encoded copy is built whole before it can be measured: the bound grows with the URL)
	poolBound := 8*L + 64*1024
	if out.Sent != nil {
		poolBound += 2 * len(out.Sent.Target)
	}
	if st.MaxCap > poolBound {
		res.violate("buffer_bound", sig+":pool", "limit %d: a pooled buffer grew to %d bytes (bound 8L+64KiB+2*URL = %d); request wire/plain %d/%d bytes, blob %d, direction %s, %s -> %s, outcome %s",
			L, st.MaxCap, poolBound, reqWire, reqPlain, c.Payload, c.Direction, ct, bt, cv.outcome())
	}
	// (only meaningful while the scripted backend, which decompresses and decodes what it is given,
	// has not run inside the measured window)
	if view == nil && alloc > int64(24*L)+(24<<20) {
		res.violate("alloc_bound", sig+":alloc", "limit %d: %d bytes were allocated while serving one request (bound 24L+24MiB); blob %d, direction %s, %s -> %s", L, alloc, c.Payload, c.Direction, ct, bt)
	}
	exhausted := cv.Err != nil && cv.Err.Code == 8
	// A4: a size rejection does not deliver the oversized message
	// (the rejection has to be about the request: the transcoder had to hold the request message - it
	// changed codec or compression, or rebuilt it from or into a URL (a REST body that reaches the
	// backend byte for byte was not rebuilt) - or else nothing of the response
	// comes near the limit; a request that is only re-framed streams through, and the same RPC may
	// still be refused for the size of its response)
	reqConverted := view != nil && (view.Codec != sc.Client.Codec || view.Compression != effectiveCompression(&sc.Client, out.Sent) ||
		sc.Client.Form == FormConnectGet || view.Protocol == ProtoREST ||
		(sc.Client.Form == FormREST && !(len(view.Payloads) == 1 && out.Sent != nil && len(out.Sent.Payloads) == 1 && string(view.Payloads[0]) == string(out.Sent.Payloads[0]))))
	if exhausted && c.Direction == "request" && view != nil && (reqConverted || responseFarBelow(sc, out, L)) {
		for i, p := range view.Payloads {
			if len(p) > L && i < len(view.Msgs) && view.Msgs[i] != nil {
				res.violate("delivered_despite_rejection", sig+":a4", "limit %d: RPC rejected with resource_exhausted but the backend received a complete message of %d bytes", L, len(p))
			}
		}
	}
	// A6: a request message whose plain form is over the limit and which the transcoder itself had to
	// inflate (the backend does not take the client's compression, or the codec changes) is not handed
	// to the backend at all - not even as a cleanly ending prefix, whatever the backend then makes of it
	if c.Direction == "request" && view != nil && reqPlain > L && sc.Client.Form != FormREST && sc.Client.Form != FormConnectGet && view.ReadErr == "" {
		inflated := effectiveCompression(&sc.Client, out.Sent) != "" && (view.Compression != effectiveCompression(&sc.Client, out.Sent) || view.Codec != sc.Client.Codec || view.Protocol == ProtoREST)
		if inflated {
			for i, p := range view.Payloads {
				// the i-th payload the backend got corresponds to the i-th message sent (earlier, smaller
				// messages of a stream are delivered legitimately)
				if i < len(out.Sent.Payloads) && len(out.Sent.Payloads[i]) > L && len(p) > 0 {
					res.violate("oversized_forwarded", sig+":a6", "limit %d: request message %d of %d decompressed bytes had to be inflated by the transcoder (%s -> %s), yet the backend was handed a cleanly ending payload of %d bytes for it (client outcome %s)", L, i, len(out.Sent.Payloads[i]), ct, bt, len(p), cv.outcome())
					break
				}
			}
		}
	}
	// A7: metadata of a compressed end-of-stream / trailer frame whose inflated size is over the limit
	// is not delivered when the transcoder has to read that frame (the client speaks another protocol)
	if c.EndFrame && view != nil && c.Payload > L && (view.Protocol == ProtoGRPCWeb || (view.Protocol == ProtoConnect && view.Sub == "stream")) && pickResponseCompression(sc, view) != "" {
		res.class("end_frame target=%s outcome=%s", view.Protocol, cv.outcome())
		if formProtocol(sc.Client.Form) != view.Protocol || sc.Client.Form == FormConnectUnary || sc.Client.Form == FormConnectGet {
			if got := strings.Join(cv.Trailers.Values("X-Big"), ""); len(got) > L {
				res.violate("oversized_end_delivered", sig+":a7", "limit %d: the backend's compressed end frame inflates to more than %d bytes, yet %d bytes of its metadata reached the %s client (outcome %s)", L, c.Payload, len(got), sc.Client.Form, cv.outcome())
			}
		}
	}
	// A8: an error body larger than the limit (on the wire or inflated) that the transcoder has to read
	// - the client speaks another protocol than the un-enveloped backend - does not reach the client
	if c.ErrorBody && view != nil && !out.Direct && (view.Protocol == ProtoREST || (view.Protocol == ProtoConnect && view.Sub != "stream")) {
		res.class("error_body target=%s outcome=%s", view.Protocol, cv.outcome())
		if c.Payload > L && cv.Err != nil && len(cv.Err.Message) > L && strings.HasPrefix(cv.Err.Message, "eeee") {
			res.violate("oversized_error_delivered", sig+":a8", "limit %d: the backend's error body of more than %d bytes was read and its message of %d bytes delivered to the %s client (outcome %s)", L, c.Payload, len(cv.Err.Message), sc.Client.Form, cv.outcome())
		}
	}
	// A3: converted + delivered => every representation fits
	if cv.OK && view != nil {
		if c.Direction == "request" && len(view.Msgs) > 0 {
			// "converted" = the transcoder had to hold the message: the payload bytes the backend got are
			// not the bytes the client sent (re-encoded / rebuilt from URL parts), or it was (de)compressed.
			// Payloads that are only re-framed may stream through without being buffered.
			codecChanged := view.Codec != sc.Client.Codec || sc.Client.Form == FormConnectGet || view.Protocol == ProtoREST
			if !codecChanged {
				for i := range view.Payloads {
					if i < len(out.Sent.Payloads) && string(view.Payloads[i]) != string(out.Sent.Payloads[i]) {
						codecChanged = true
					}
				}
			}
			compChanged := view.Compression != effectiveCompression(&sc.Client, out.Sent)
			if codecChanged || compChanged {
				if reqWire > L && formEnveloped(sc.Client.Form) {
					res.violate("oversized_converted", sig+":a3", "limit %d: request message of %d wire bytes was converted (%s -> %s) and delivered", L, reqWire, ct, bt)
				}
				if reqPlain > L && sc.Client.Form != FormREST && sc.Client.Form != FormConnectGet {
					res.violate("oversized_converted", sig+":a3", "limit %d: request message of %d decompressed bytes was converted (%s -> %s) and delivered", L, reqPlain, ct, bt)
				}
				if view.Protocol == ProtoREST && sc.Client.Form != FormREST && view.Rule != nil && view.Rule.Body != "" && view.MI != nil && !view.MI.CStream && !restRequestBodyIsHTTPBody(view) {
					// the JSON body built for a REST backend is the re-encoded form of the message (an
					// HttpBody upload, forwarded chunk by chunk, is not one message)
					if n := maxLen(view.Payloads); n > L {
						res.violate("oversized_converted", sig+":a3", "limit %d: request message was re-encoded into a REST body of %d bytes (%s -> %s) and delivered", L, n, ct, bt)
					}
				}
				if codecChanged && view.Protocol != ProtoREST {
					// (a message that travels to the backend in a Connect GET URL is held to the limit like one in a body)
					if n := maxLen(view.Payloads); n > L {
						res.violate("oversized_converted", sig+":a3", "limit %d: request message was re-encoded to %d bytes (%s -> %s) and delivered", L, n, ct, bt)
					}
				}
			}
		}
		if c.Direction == "response" && len(cv.Msgs) > 0 && !httpBodyResponse(sc, out) {
			codecChanged := view.Codec != sc.Client.Codec
			if codecChanged && sc.Client.Form != FormREST {
				if n := maxLen(cv.Payloads); n > L {
					res.violate("oversized_converted", sig+":a3", "limit %d: response message was re-encoded to %d bytes (%s <- %s) and delivered", L, n, ct, bt)
				}
			}
		}
	}
	// A5: clients whose outcome precedes the body (Connect unary, REST) get their response buffered whole
	if cv.OK && view != nil && !formEnveloped(sc.Client.Form) {
		if n := maxInts(cv.WireSizes); n > L {
			res.violate("oversized_buffered", sig+":a5", "limit %d: a response of %d bytes was buffered whole for the %s client and delivered (%s <- %s)", L, n, sc.Client.Form, ct, bt)
		}
	}
	// A2: everything fits => no size rejection
	if exhausted {
		margin := 16
		if sc.Client.Form == FormREST || (view != nil && view.Protocol == ProtoREST) {
			// what a REST leg re-encodes to depends on which sub-messages the binding makes present
			// (an empty body field becomes a present, fully spelled-out sub-message in JSON): the sizes
			// computed here are a lower bound only, so "fits" is asserted with half the limit to spare
			margin = L / 2
		}
		fits := true
		sizes := []int{reqWire, reqPlain}
		if c.EndFrame || c.ErrorBody {
			sizes = append(sizes, c.Payload+128) // the end frame / error body is a message-sized item, too
		}
		if view != nil {
			sizes = append(sizes, maxLen(view.Payloads), maxInts(view.WireSizes))
		}
		for _, mb := range sc.Backend.Msgs {
			if view == nil {
				break // the backend was never invoked: nothing of its answer can have been measured
			}
			if out.Sent.MI != nil {
				m := newMessage(out.Sent.MI.Out)
				if proto.Unmarshal(mb, m) == nil {
					for _, codec := range []string{CodecProto, CodecJSON} { // (kept wide: cheap, responses of request cases are small)
						if p, err := encodeMsg(codec, JSONStyle{EmitUnpopulated: true}, m); err == nil {
							sizes = append(sizes, len(p))
						}
					}
				}
			}
		}
		// re-encodings the harness can compute: the message in every codec that can be involved (the
		// client's, the configured target codecs, JSON whenever a REST leg is possible)
		involved := []string{sc.Client.Codec}
		for _, cd := range sc.Config.Codecs {
			if !contains(involved, cd) {
				involved = append(involved, cd)
			}
		}
		if (sc.Client.Form == FormREST || contains(sc.Config.Protocols, ProtoREST)) && !contains(involved, CodecJSON) {
			involved = append(involved, CodecJSON)
		}
		for _, mb := range sc.Client.Msgs {
			if out.Sent.MI != nil {
				m := newMessage(out.Sent.MI.In)
				if proto.Unmarshal(mb, m) == nil {
					for _, codec := range involved {
						if p, err := encodeMsg(codec, JSONStyle{EmitUnpopulated: true}, m); err == nil {
							sizes = append(sizes, len(p))
						}
					}
				}
			}
		}
		for _, s := range sizes {
			if s > L-margin {
				fits = false
			}
		}
		if fits {
			res.violate("spurious_rejection", sig+":a2", "limit %d: every representation fits (max %d bytes) but the RPC was rejected with resource_exhausted (%s -> %s, direction %s)", L, maxInts(sizes), ct, bt, c.Direction)
		}
	}
	return res
}

func relClass(n, L int) string {
	switch {
	case n >= 20*L:
		return "bomb"
	case n > 4*L:
		return ">4L"
	case n > L:
		return "(L,4L]"
	case n == L:
		return "=L"
	case n >= L/2:
		return "[L/2,L)"
	}
	return "<L/2"
}
