package verifbench

import (
	"bufio"
	"encoding/binary"
	"encoding/json"
	"fmt"
	"io"
	"net/http"
	"os"
	"strings"
	"sync"
	"sync/atomic"
	"testing"
	"time"

	"pgregory.net/rapid"
)

// C16 - streaming RPCs make progress message by message.

const ruleC16 = "rapid draws strict ping-pong exchanges on the bidi method: 1..30 rounds, per-round payload sizes 0..64 KiB (empty payloads included), streaming client forms {Connect stream, gRPC, gRPC-Web} x streaming targets {Connect, gRPC, gRPC-Web} x same/different codec x same/different compression x compressed or raw frames. The client (request body = pipe) sends message k+1 only after it has RECEIVED response k, where 'received' means: the bytes of the complete converted frame have reached the underlying ResponseWriter and a Flush followed; the handler writes response k only after it has read request k completely. A third of the handlers read through a 4 KiB buffered reader, a quarter of the exchanges run behind a middleware writer that buffers the body and offers Unwrap plus either Flush or only FlushError() error; the handler flushes through http.ResponseController. Oracle: every round completes (stalled = no observable step of client, handler or transcoder output for 4 s, three orders of magnitude above a round, or not finished after 20 s), every response frame is followed by a Flush before the next request message is needed, the transcoder never needs request bytes beyond message k to deliver message k, and the final outcome is OK with exactly the exchanged messages. Non-trivial = at least 2 rounds through a converting adapter; distinct by hash(form, target, codecs, compressions, sizes)."

type pingCase struct {
	Form                 string   `json:"form"`
	Target               string   `json:"target"`
	Codec                string   `json:"codec"`
	BackendCodecs        []string `json:"backend_codecs"`
	Compression          string   `json:"compression"`
	BackendCompressions  []string `json:"backend_compressions"`
	RespCompress         bool     `json:"resp_compress"`
	RawFrames            []bool   `json:"raw_frames,omitempty"`
	Sizes                []int    `json:"sizes"`
	BufferedHandler      bool     `json:"buffered_handler,omitempty"`       // the handler reads its request through a 4 KiB buffered reader (as grpc-go or a proxy does) instead of exactly the bytes it needs
	MiddlewareFlushError bool     `json:"middleware_flush_error,omitempty"` // that middleware offers FlushError() error (and Unwrap) instead of Flush()
	Middleware           bool     `json:"middleware,omitempty"`             // the transcoder sits behind a middleware whose ResponseWriter buffers the body and offers both Flush and Unwrap
}

func init() {
	registerProp(&propDef{ID: "C16", Rule: ruleC16, Replay: func(raw json.RawMessage) (*CheckResult, error) {
		var c pingCase
		if err := json.Unmarshal(raw, &c); err != nil {
			return nil, err
		}
		return checkC16(&c), nil
	}})
}

func TestC16(t *testing.T) {
	rapid.Check(t, func(t *rapid.T) {
		c := &pingCase{}
		c.Form = rapid.SampledFrom([]string{FormConnectStream, FormGRPC, FormGRPCWeb}).Draw(t, "form")
		c.Target = rapid.SampledFrom([]string{ProtoConnect, ProtoGRPC, ProtoGRPCWeb}).Draw(t, "target")
		c.Codec = rapid.SampledFrom([]string{CodecProto, CodecJSON}).Draw(t, "codec")
		c.BackendCodecs = append([]string(nil), rapid.SampledFrom([][]string{{CodecProto}, {CodecJSON}, {CodecProto, CodecJSON}}).Draw(t, "backend_codecs")...)
		c.Compression = rapid.SampledFrom([]string{"", "", CompGzip, CompDeflate}).Draw(t, "compression")
		c.BackendCompressions = append([]string{}, rapid.SampledFrom([][]string{{}, {CompGzip}, {CompGzip, CompDeflate}}).Draw(t, "backend_compressions")...)
		c.RespCompress = rapid.Bool().Draw(t, "resp_compress")
		n := rapid.IntRange(1, 30).Draw(t, "rounds")
		for i := 0; i < n; i++ {
			c.Sizes = append(c.Sizes, rapid.SampledFrom([]int{0, 0, 1, 5, 100, 1000, 5000, 65536}).Draw(t, "size"))
			c.RawFrames = append(c.RawFrames, rapid.IntRange(0, 3).Draw(t, "raw_frame") == 0)
		}
		c.BufferedHandler = rapid.IntRange(0, 2).Draw(t, "buffered_handler") == 0
		c.Middleware = rapid.IntRange(0, 3).Draw(t, "middleware") == 0
		c.MiddlewareFlushError = c.Middleware && rapid.Bool().Draw(t, "middleware_flush_error")
		judge(t, "C16", c, checkC16(c))
	})
}

// pingQuiet: no observable step of client, transcoder output or handler for this long = stalled.
var pingQuiet = func() time.Duration {
	if v := os.Getenv("VERIF_PING_QUIET"); v != "" {
		if d, err := time.ParseDuration(v); err == nil {
			return d
		}
	}
	return 4 * time.Second
}()

// bufferingMiddleware is a ResponseWriter as a compression or logging middleware provides it: it
// buffers the body, pushes it on when Flush is called, and exposes the writer it wraps through Unwrap.
type bufferingMiddleware struct {
	inner *Recorder
	buf   []byte
}

func (b *bufferingMiddleware) Header() http.Header  { return b.inner.Header() }
func (b *bufferingMiddleware) WriteHeader(code int) { b.inner.WriteHeader(code) }
func (b *bufferingMiddleware) Write(p []byte) (int, error) {
	b.buf = append(b.buf, p...)
	return len(p), nil
}
func (b *bufferingMiddleware) Flush() {
	if len(b.buf) > 0 {
		_, _ = b.inner.Write(b.buf)
		b.buf = b.buf[:0]
	}
	b.inner.Flush()
}
func (b *bufferingMiddleware) Unwrap() http.ResponseWriter { return b.inner }
func (b *bufferingMiddleware) finish() {
	if len(b.buf) > 0 {
		_, _ = b.inner.Write(b.buf)
		b.buf = b.buf[:0]
	}
}

// flushErrorMiddleware: the same middleware for writers that follow the newer convention - no Flush(),
// but FlushError() error, found through http.ResponseController or an Unwrap chain.
type flushErrorMiddleware struct{ m *bufferingMiddleware }

func (f flushErrorMiddleware) Header() http.Header         { return f.m.Header() }
func (f flushErrorMiddleware) WriteHeader(code int)        { f.m.WriteHeader(code) }
func (f flushErrorMiddleware) Write(p []byte) (int, error) { return f.m.Write(p) }
func (f flushErrorMiddleware) FlushError() error           { f.m.Flush(); return nil }
func (f flushErrorMiddleware) Unwrap() http.ResponseWriter { return f.m.inner }

var pingWatchdog = func() time.Duration {
	if v := os.Getenv("VERIF_PING_WATCHDOG"); v != "" {
		if d, err := time.ParseDuration(v); err == nil {
			return d
		}
	}
	return 20 * time.Second
}()

type pingResult struct {
	stalledAt   int // round at which the exchange stalled, -1 if it completed
	who         string
	outcome     string
	clientMsgs  int
	handlerMsgs int
	panicked    string
	rejected    string
	unflushed   int
}

// countFlushedFrames counts complete data frames within the flushed prefix.
func countFlushedFrames(b []byte) int {
	n := 0
	for len(b) >= 5 {
		l := int(binary.BigEndian.Uint32(b[1:5]))
		if len(b) < 5+l {
			break
		}
		if b[0]&^1 == 0 {
			n++
		}
		b = b[5+l:]
	}
	return n
}

func pingPayload(codec string, size, seq int) []byte {
	m := newMessage(msgAll)
	fs := m.ProtoReflect().Descriptor().Fields()
	if size > 0 {
		m.ProtoReflect().Set(fs.ByName("int32_value"), valueOfInt32(int32(seq+1)))
		if size > 2 {
			m.ProtoReflect().Set(fs.ByName("string_value"), valueOfString(strings.Repeat("p", size-2)))
		}
	}
	p, _ := encodeMsg(codec, JSONStyle{}, m)
	if size == 0 && codec == CodecJSON {
		p = []byte("{}")
	}
	return p
}

func runPing(c *pingCase) pingResult {
	res := pingResult{stalledAt: -1}
	rounds := len(c.Sizes)
	cfg := Config{Protocols: []string{c.Target}, Codecs: c.BackendCodecs, Compressions: c.BackendCompressions}
	var mu sync.Mutex
	cond := sync.NewCond(&mu)
	flushed := 0     // bytes of the response covered by a Flush
	written := 0     // bytes of the response written
	handlerRead := 0 // complete request messages the handler has read
	aborted := false
	var lastProgress int64 // unix nanos of the last observable step of any party
	progress := func() { atomic.StoreInt64(&lastProgress, time.Now().UnixNano()) }
	progress()
	handler := http.HandlerFunc(func(w http.ResponseWriter, r *http.Request) {
		ct := r.Header.Get("Content-Type")
		w.Header().Set("Content-Type", ct)
		codec := ct[strings.LastIndex(ct, "+")+1:]
		comp := ""
		if c.RespCompress {
			for _, h := range []string{"Grpc-Accept-Encoding", "Connect-Accept-Encoding"} {
				for _, a := range splitList(r.Header.Values(h)) {
					if comp == "" && (a == CompGzip || a == CompDeflate) {
						comp = a
					}
				}
			}
			if comp != "" {
				if strings.HasPrefix(ct, "application/connect+") {
					w.Header().Set("Connect-Content-Encoding", comp)
				} else {
					w.Header().Set("Grpc-Encoding", comp)
				}
			}
		}
		var hdr [5]byte
		var body io.Reader = r.Body
		if c.BufferedHandler {
			body = bufio.NewReaderSize(r.Body, 4096)
		}
		for k := 0; k < rounds; k++ {
			if _, err := io.ReadFull(body, hdr[:]); err != nil {
				break
			}
			n := binary.BigEndian.Uint32(hdr[1:])
			if _, err := io.CopyN(io.Discard, body, int64(n)); err != nil {
				break
			}
			mu.Lock()
			handlerRead = k + 1
			cond.Broadcast()
			mu.Unlock()
			progress()
			p := pingPayload(codec, c.Sizes[k], 1000+k)
			flags := byte(0)
			if comp != "" && !c.RawFrames[k] {
				p = compressBytes(comp, p)
				flags = 1
			}
			if _, err := w.Write(appendFrame(nil, flags, p)); err != nil {
				break
			}
			// a streaming handler flushes after each message (for the transcoder's writer this
			// is a no-op: it flushes at message boundaries itself)
			_ = http.NewResponseController(w).Flush() // finds Flush, FlushError and Unwrap chains, like a gRPC or Connect server does
		}
		switch {
		case strings.HasPrefix(ct, "application/grpc-web"):
			_, _ = w.Write(appendFrame(nil, 0x80, []byte("grpc-status: 0\r\n")))
		case strings.HasPrefix(ct, "application/grpc"):
			w.Header().Set(http.TrailerPrefix+"Grpc-Status", "0")
		default:
			_, _ = w.Write(appendFrame(nil, 2, []byte("{}")))
		}
	})
	tr, err := buildTranscoder(cfg, handler, nil)
	if err != nil {
		res.rejected = err.Error()
		return res
	}
	pr, pw := io.Pipe()
	var done int32
	hdrs := duplexContentType(c.Form, c.Codec)
	accept := "gzip, deflate"
	switch c.Form {
	case FormConnectStream:
		if c.Compression != "" {
			hdrs = append(hdrs, KV{"Connect-Content-Encoding", c.Compression})
		}
		hdrs = append(hdrs, KV{"Connect-Accept-Encoding", accept})
	default:
		if c.Compression != "" {
			hdrs = append(hdrs, KV{"Grpc-Encoding", c.Compression})
		}
		hdrs = append(hdrs, KV{"Grpc-Accept-Encoding", accept})
	}
	req, _, _, err := newRequest("POST", "/"+benchService+"/Bidi", hdrs, []byte{}, true, -1, nil, false, &done)
	if err != nil {
		res.rejected = err.Error()
		return res
	}
	req.Body = pr
	rec := newRecorder(&done)
	rec.onWrite = func(total int) {
		mu.Lock()
		written = total
		mu.Unlock()
		progress()
	}
	rec.onFlush = func(total int) {
		mu.Lock()
		flushed = total
		cond.Broadcast()
		mu.Unlock()
		progress()
	}
	var clientWriter http.ResponseWriter = rec
	if c.Middleware {
		mw := &bufferingMiddleware{inner: rec}
		clientWriter = mw
		if c.MiddlewareFlushError {
			clientWriter = flushErrorMiddleware{mw}
		}
	}
	// client: strict alternation
	clientDone := make(chan struct{})
	go func() {
		defer close(clientDone)
		defer pw.Close()
		for k := 0; k < rounds; k++ {
			p := pingPayload(c.Codec, c.Sizes[k], k)
			flags := byte(0)
			if c.Compression != "" && !c.RawFrames[k] {
				p = compressBytes(c.Compression, p)
				flags = 1
			}
			if _, err := pw.Write(appendFrame(nil, flags, p)); err != nil {
				return
			}
			progress()
			// wait for response k to have been received (flushed)
			mu.Lock()
			for !aborted {
				rec.mu.Lock()
				got := countFlushedFrames(rec.Body.Bytes()[:minInt(flushed, rec.Body.Len())])
				rec.mu.Unlock()
				if got >= k+1 {
					break
				}
				cond.Wait()
			}
			ab := aborted
			mu.Unlock()
			if ab {
				return
			}
		}
	}()
	finished := make(chan struct{})
	go func() {
		defer close(finished)
		defer func() {
			if p := recover(); p != nil {
				res.panicked = fmt.Sprint(p)
			}
		}()
		tr.ServeHTTP(clientWriter, req)
		switch mw := clientWriter.(type) {
		case *bufferingMiddleware:
			mw.finish() // a middleware writes out what it still holds when the handler it wraps has returned
		case flushErrorMiddleware:
			mw.m.finish()
		}
	}()
	// A strict ping-pong in memory either makes a step within microseconds or never again: the
	// exchange counts as stalled when no party has made an observable step for pingQuiet (three
	// orders of magnitude above a round), or when it has not finished after pingWatchdog.
	stalled := false
	deadline := time.After(pingWatchdog)
	tick := time.NewTicker(25 * time.Millisecond)
	defer tick.Stop()
wait:
	for {
		select {
		case <-finished:
			break wait
		case <-deadline:
			stalled = true
			break wait
		case <-tick.C:
			if time.Since(time.Unix(0, atomic.LoadInt64(&lastProgress))) > pingQuiet {
				stalled = true
				break wait
			}
		}
	}
	switch {
	case !stalled:
	default:
		mu.Lock()
		rec.mu.Lock()
		got := countFlushedFrames(rec.Body.Bytes()[:minInt(flushed, rec.Body.Len())])
		all := countFlushedFrames(rec.Body.Bytes())
		rec.mu.Unlock()
		res.stalledAt = got
		res.handlerMsgs = handlerRead
		res.unflushed = all - got
		switch {
		case all > got:
			res.who = fmt.Sprintf("response %d was written to the client's writer but never flushed", got)
		case handlerRead > got:
			res.who = fmt.Sprintf("the handler wrote response %d (it has read %d requests) but it never reached the client's writer", got, handlerRead)
		default:
			res.who = fmt.Sprintf("the client sent request %d but the handler never received it (handler has read %d)", got, handlerRead)
		}
		aborted = true
		cond.Broadcast()
		mu.Unlock()
		pw.CloseWithError(io.ErrClosedPipe)
		<-clientDone
		return res
	}
	mu.Lock()
	aborted = true
	cond.Broadcast()
	mu.Unlock()
	<-clientDone
	sc := &Scenario{Client: Client{Form: c.Form, Method: "Bidi", Codec: c.Codec, Accept: []string{CompGzip, CompDeflate}, Compression: c.Compression}}
	cv := parseClientResponse(sc, &encodedRequest{MI: lookupMethod(benchService, "Bidi")}, rec, rec.Trailers())
	res.outcome = cv.outcome()
	if len(cv.Problems) > 0 {
		res.outcome += " problems:" + strings.Join(cv.Problems, "; ")
	}
	res.clientMsgs = len(cv.Msgs)
	res.handlerMsgs = handlerRead
	_ = written
	return res
}

func minInt(a, b int) int {
	if a < b {
		return a
	}
	return b
}

func checkC16(c *pingCase) *CheckResult {
	res := &CheckResult{}
	raw, _ := json.Marshal(c)
	res.Key = string(raw)
	r := runPing(c)
	if r.rejected != "" {
		res.Skipped = true
		return res
	}
	converting := !(formProtocol(c.Form) == c.Target && contains(c.BackendCodecs, c.Codec) && (c.Compression == "" || contains(c.BackendCompressions, c.Compression)))
	res.NonTrivial = len(c.Sizes) >= 2 && converting
	empties := 0
	for _, s := range c.Sizes {
		if s == 0 {
			empties++
		}
	}
	res.class("form=%s target=%s converting=%v empty_msgs=%v", c.Form, c.Target, converting, empties > 0)
	res.Sample = map[string]any{"case": c, "completed_rounds": r.clientMsgs, "outcome": r.outcome}
	if r.panicked != "" {
		res.violate("panic", "panic:ping", "ping-pong exchange panicked: %s", r.panicked)
		return res
	}
	if r.stalledAt >= 0 {
		// re-run twice before it counts (DESIGN 2.1)
		for i := 0; i < 2; i++ {
			if r2 := runPing(c); r2.stalledAt < 0 {
				res.class("stall_not_reproduced")
				if os.Getenv("VERIF_DEBUG") != "" {
					fmt.Fprintf(os.Stderr, "C16 debug: stall not reproduced: round %d of %d: %s (%s)\n", r.stalledAt, len(c.Sizes), r.who, describePing(c))
				}
				return res
			}
		}
		res.violate("stalled", "c16:stalled", "strict ping-pong of %d rounds stalled in round %d (%s): %s", len(c.Sizes), r.stalledAt, describePing(c), r.who)
		return res
	}
	if !strings.HasPrefix(r.outcome, "ok") || strings.Contains(r.outcome, "problems:") {
		res.violate("outcome", "c16:outcome", "ping-pong of %d rounds (%s) ended with %s", len(c.Sizes), describePing(c), r.outcome)
	}
	if r.clientMsgs != len(c.Sizes) || r.handlerMsgs != len(c.Sizes) {
		res.violate("count", "c16:count", "ping-pong of %d rounds (%s): client received %d messages, handler read %d", len(c.Sizes), describePing(c), r.clientMsgs, r.handlerMsgs)
	}
	return res
}

func describePing(c *pingCase) string {
	return fmt.Sprintf("%s/%s/%q -> %s/%v/%v", c.Form, c.Codec, c.Compression, c.Target, c.BackendCodecs, c.BackendCompressions)
}
