package verifbench

// Fault injection on the wire bytes of an otherwise valid exchange (C09, C11,
// C15). A fault is applied after the reference encoder produced the request /
// response, so everything before the fault point is a valid prefix.

import (
	"bytes"
	"encoding/binary"
	"io"
	"regexp"
)

func mustRe(s string) *regexp.Regexp { return regexp.MustCompile(s) }

const (
	FaultCut       = "cut"        // body stops after At bytes (reader reports unexpected EOF / handler returns)
	FaultCutClean  = "cut_clean"  // body stops after At bytes with a clean EOF and no declared length
	FaultFlag      = "flag"       // flag byte of frame At set to Val
	FaultLenPlus   = "len_plus"   // envelope length of frame At over-stated by Val
	FaultLenMinus  = "len_minus"  // envelope length of frame At under-stated by Val
	FaultBitFlip   = "bitflip"    // bit Val%8 of payload byte At (of the whole body) flipped
	FaultGarbage   = "garbage"    // payload of frame At replaced by undecodable bytes of the same length
	FaultCLPlus    = "cl_plus"    // declared Content-Length over-stated by Val
	FaultCLMinus   = "cl_minus"   // declared Content-Length under-stated by Val
	FaultNoStatus  = "no_status"  // response: terminal status removed (no grpc-status / end frame)
	FaultExtraData = "extra_data" // response: data after the end
	FaultEndTrail  = "end_trail"  // response: bytes after the JSON object inside a Connect end-of-stream frame (length adjusted)
	FaultReplace   = "replace"    // whole body replaced by Data (native fuzz targets)
	FaultSplice    = "splice"     // Data written over the body at offset At (the body grows if Data reaches past its end)
)

// frameOffsets returns the start offset of every complete frame in body.
func frameOffsets(body []byte) []int {
	var offs []int
	p := 0
	for p+5 <= len(body) {
		n := int(binary.BigEndian.Uint32(body[p+1 : p+5]))
		if p+5+n > len(body) {
			break
		}
		offs = append(offs, p)
		p += 5 + n
	}
	return offs
}

// mutateBody applies the byte-level faults shared by both directions. It
// reports whether anything changed.
func mutateBody(f *Fault, body []byte, enveloped bool) ([]byte, bool) {
	if f == nil {
		return body, false
	}
	switch f.Kind {
	case FaultCut, FaultCutClean:
		if len(body) == 0 {
			return body, false
		}
		at := f.At % len(body)
		if offs := frameOffsets(body); enveloped && f.Val > 0 && len(offs) > 0 {
			// snapped to the framing: right after the 5-byte prefix of a frame (1), at the start of a
			// frame after the first (2), inside a prefix (3), one byte short of a frame's end (4)
			o := offs[f.At%len(offs)]
			switch f.Val {
			case 1:
				at = o + 5
			case 2:
				at = o
			case 3:
				at = o + 1 + f.At%4
			default:
				end := len(body)
				if i := f.At%len(offs) + 1; i < len(offs) {
					end = offs[i]
				}
				at = end - 1
			}
			if at <= 0 || at >= len(body) {
				at = f.At % len(body)
			}
		}
		return append([]byte{}, body[:at]...), true
	case FaultBitFlip:
		if len(body) == 0 {
			return body, false
		}
		out := append([]byte(nil), body...)
		out[f.At%len(out)] ^= 1 << (uint(f.Val) % 8)
		return out, true
	case FaultReplace:
		if bytes.Equal(body, f.Data) {
			return body, false
		}
		return append([]byte{}, f.Data...), true
	case FaultSplice:
		if len(f.Data) == 0 {
			return body, false
		}
		at := 0
		if len(body) > 0 {
			at = f.At % (len(body) + 1)
		}
		out := append([]byte{}, body[:at]...)
		out = append(out, f.Data...)
		if at+len(f.Data) < len(body) {
			out = append(out, body[at+len(f.Data):]...)
		}
		if bytes.Equal(out, body) {
			return body, false
		}
		return out, true
	}
	if !enveloped {
		if f.Kind == FaultGarbage && len(body) > 0 {
			out := make([]byte, len(body))
			for i := range out {
				out[i] = 0xFF
			}
			return out, true
		}
		return body, false
	}
	offs := frameOffsets(body)
	if len(offs) == 0 {
		return body, false
	}
	o := offs[f.At%len(offs)]
	out := append([]byte(nil), body...)
	n := binary.BigEndian.Uint32(out[o+1 : o+5])
	switch f.Kind {
	case FaultFlag:
		if out[o] == byte(f.Val) {
			return body, false
		}
		out[o] = byte(f.Val)
	case FaultLenPlus:
		d := uint32(f.Val)
		if d == 0 {
			d = 1
		}
		binary.BigEndian.PutUint32(out[o+1:o+5], n+d)
	case FaultLenMinus:
		d := uint32(f.Val)
		if d == 0 {
			d = 1
		}
		if d > n {
			d = n
		}
		if d == 0 {
			return body, false
		}
		binary.BigEndian.PutUint32(out[o+1:o+5], n-d)
	case FaultGarbage:
		if n == 0 {
			return body, false
		}
		for i := o + 5; i < o+5+int(n); i++ {
			out[i] = 0xFF
		}
	default:
		return body, false
	}
	return out, true
}

func applyRequestFault(sc *Scenario, enc *encodedRequest) {
	f := sc.Client.Fault
	if f == nil || enc.Body == nil {
		return
	}
	switch f.Kind {
	case FaultCLPlus, FaultCLMinus:
		// handled in newRequest via header override below
		d := f.Val
		if d <= 0 {
			d = 1
		}
		n := len(enc.Body)
		if f.Kind == FaultCLMinus {
			if d > n {
				d = n
			}
			n -= d
		} else {
			n += d
		}
		enc.DeclaredCL = int64(n)
		if f.Kind == FaultCLPlus {
			enc.BodyErr = io.ErrUnexpectedEOF
		} else {
			// a real server hands over exactly the declared number of bytes
			enc.Body = enc.Body[:n]
		}
		return
	}
	body, changed := mutateBody(f, enc.Body, formEnveloped(sc.Client.Form))
	if !changed {
		return
	}
	if f.Kind == FaultCut {
		enc.BodyErr = io.ErrUnexpectedEOF
	} else if enc.DeclaredCL >= 0 && len(body) != len(enc.Body) {
		// a body that ends cleanly has the length its sender declared (net/http turns any other
		// combination into a read error, which is what FaultCut / cl_plus / cl_minus model)
		enc.DeclaredCL = int64(len(body))
	}
	enc.Body = body
}

func applyResponseFault(sc *Scenario, v *BackendView, resp *builtResponse) {
	f := sc.Backend.Fault
	if f == nil {
		return
	}
	enveloped := v.Protocol == ProtoGRPC || v.Protocol == ProtoGRPCWeb || (v.Protocol == ProtoConnect && v.Sub == "stream")
	switch f.Kind {
	case FaultCLPlus, FaultCLMinus:
		d := f.Val
		if d <= 0 {
			d = 1
		}
		n := len(resp.Body)
		if f.Kind == FaultCLMinus {
			if d > n {
				d = n
			}
			n -= d
		} else {
			n += d
		}
		resp.CL = &n
		return
	case FaultNoStatus:
		switch {
		case v.Protocol == ProtoGRPC:
			resp.Trailer.Del("Grpc-Status")
			resp.Header.Del("Grpc-Status")
		case enveloped:
			// drop the final (end / trailer) frame
			offs := frameOffsets(resp.Body)
			if len(offs) > 0 {
				resp.Body = resp.Body[:offs[len(offs)-1]]
			}
		}
		return
	case FaultExtraData:
		resp.Body = appendFrame(resp.Body, 0, []byte("extra"))
		return
	case FaultEndTrail:
		if v.Protocol == ProtoConnect && v.Sub == "stream" {
			if offs := frameOffsets(resp.Body); len(offs) > 0 {
				o := offs[len(offs)-1]
				if resp.Body[o] == 2 { // an uncompressed end frame
					tails := []string{`{"error":{"code":"internal","message":"late"}}`, "\x00\x00", "x", "]", "{}", ` {"metadata":{}}`}
					payload := append(append([]byte{}, resp.Body[o+5:]...), tails[f.At%len(tails)]...)
					resp.Body = appendFrame(resp.Body[:o:o], 2, payload)
				}
			}
		}
		return
	}
	body, changed := mutateBody(f, resp.Body, enveloped)
	if changed {
		resp.Body = body
	}
}
