package verifbench

// Bookkeeping shared by all properties: per-process counters that become the
// evidence file, known-finding matching, the failing-case file, the replay
// entry point (DESIGN.md 1.3-1.5).

import (
	"flag"
	"encoding/json"
	"fmt"
	"hash/fnv"
	"os"
	"sort"
	"strings"
	"sync"

)

type Violation struct {
	Kind string `json:"kind"` // short class of what went wrong
	Sig  string `json:"sig"`  // root-cause signature used for known-finding matching
	Msg  string `json:"msg"`
}

func (v Violation) String() string {
	return fmt.Sprintf("[%s] %s (sig=%s)", v.Kind, v.Msg, v.Sig)
}

type CheckResult struct {
	Violations []Violation
	NonTrivial bool
	Key        string   // distinctness key (hashed)
	Classes    []string // labels for the histogram
	Skipped    bool     // the case fell outside the property's domain
	Sample     any      // compact description for the evidence file
}

func (r *CheckResult) violate(kind, sig, f string, a ...any) {
	r.Violations = append(r.Violations, Violation{Kind: kind, Sig: sig, Msg: fmt.Sprintf(f, a...)})
}

func (r *CheckResult) class(f string, a ...any) {
	r.Classes = append(r.Classes, fmt.Sprintf(f, a...))
}

type propDef struct {
	ID     string
	Rule   string
	Replay func(raw json.RawMessage) (*CheckResult, error)
}

var props = map[string]*propDef{}

func registerProp(p *propDef) { props[p.ID] = p }

// registerScenarioProp registers a property whose case is a Scenario.
func registerScenarioProp(id, rule string, check func(*Scenario) *CheckResult) {
	registerProp(&propDef{ID: id, Rule: rule, Replay: func(raw json.RawMessage) (*CheckResult, error) {
		var sc Scenario
		if err := json.Unmarshal(raw, &sc); err != nil {
			return nil, err
		}
		return check(&sc), nil
	}})
}

// ---- known findings ----------------------------------------------------------------

type knownFinding struct {
	ID       string `json:"id"`
	Property string `json:"property"`
	Status   string `json:"status"` // open | fixed
	Sig      string `json:"sig"`
	What     string `json:"what"`
	Witness  string `json:"witness,omitempty"`
}

type knownFile struct {
	Findings []knownFinding `json:"findings"`
}

var (
	knownOnce sync.Once
	knownList []knownFinding
)

func loadKnown() []knownFinding {
	knownOnce.Do(func() {
		p := os.Getenv("VERIF_KNOWN")
		if p == "" {
			return
		}
		b, err := os.ReadFile(p)
		if err != nil {
			return
		}
		var kf knownFile
		if err := json.Unmarshal(b, &kf); err != nil {
			fmt.Fprintf(os.Stderr, "verifbench: cannot parse %s: %v\n", p, err)
			return
		}
		knownList = kf.Findings
	})
	return knownList
}

// classify splits violations into new ones and ones matching an OPEN known
// finding of this property (by exact signature).
func classify(prop string, vs []Violation) (fresh []Violation, known []string) {
	for _, v := range vs {
		matched := false
		for _, k := range loadKnown() {
			if k.Status == "open" && k.Property == prop && k.Sig != "" && sigMatch(k.Sig, v.Sig) {
				known = append(known, k.ID+": "+v.Msg)
				matched = true
				break
			}
		}
		if !matched {
			fresh = append(fresh, v)
		}
	}
	return fresh, known
}

// sigMatch: exact, or prefix when the listed signature ends in '*'.
func sigMatch(listed, got string) bool {
	if strings.HasSuffix(listed, "*") {
		return strings.HasPrefix(got, strings.TrimSuffix(listed, "*"))
	}
	return listed == got
}

// ---- statistics --------------------------------------------------------------------

type statsT struct {
	mu          sync.Mutex
	Evaluations int               `json:"evaluations"`
	Skipped     int               `json:"skipped"`
	NonTrivial  map[string]bool   `json:"-"`
	Hashes      []string          `json:"nontrivial_hashes"`
	Classes     map[string]int    `json:"classes"`
	Samples     []any             `json:"samples"`
	Excluded    map[string]int    `json:"excluded_known"`
	Rule        string            `json:"rule"`
	Extra       map[string]any    `json:"extra"`
	Replay      map[string]replayResult `json:"replay,omitempty"`
}

type replayResult struct {
	Violations []string `json:"violations"`
	Known      []string `json:"known"`
}

var stats = &statsT{NonTrivial: map[string]bool{}, Classes: map[string]int{}, Excluded: map[string]int{}, Extra: map[string]any{}}

func hashKey(s string) string {
	h := fnv.New64a()
	_, _ = h.Write([]byte(s))
	return fmt.Sprintf("%016x", h.Sum64())
}

func (s *statsT) record(prop string, res *CheckResult, known []string) {
	s.mu.Lock()
	defer s.mu.Unlock()
	if res.Skipped {
		s.Skipped++
		return
	}
	s.Evaluations++
	if res.NonTrivial {
		s.NonTrivial[hashKey(res.Key)] = true
	}
	for _, c := range res.Classes {
		s.Classes[c]++
	}
	for _, k := range known {
		id, _, _ := strings.Cut(k, ":")
		s.Excluded[id]++
	}
	if res.Sample != nil && len(s.Samples) < 4 && ((res.NonTrivial && s.Evaluations%7 == 1) || (len(s.Samples) == 0 && s.Evaluations > 50)) {
		s.Samples = append(s.Samples, res.Sample)
	}
}

func (s *statsT) addExtra(k string, n int) {
	s.mu.Lock()
	defer s.mu.Unlock()
	cur, _ := s.Extra[k].(int)
	s.Extra[k] = cur + n
}

func (s *statsT) write() {
	p := os.Getenv("VERIF_STATS_OUT")
	if p == "" {
		return
	}
	if f := flag.Lookup("test.fuzzworker"); f != nil && f.Value.String() == "true" {
		// native fuzzing runs one process per worker; each writes its own file, the driver merges them
		p = fmt.Sprintf("%s.%d", p, os.Getpid())
	}
	s.mu.Lock()
	defer s.mu.Unlock()
	s.Hashes = s.Hashes[:0]
	for h := range s.NonTrivial {
		s.Hashes = append(s.Hashes, h)
	}
	sort.Strings(s.Hashes)
	if pd := props[os.Getenv("VERIF_PROP")]; pd != nil {
		s.Rule = pd.Rule
	}
	b, err := json.Marshal(s)
	if err != nil {
		fmt.Fprintf(os.Stderr, "verifbench: cannot encode stats: %v\n", err)
		return
	}
	_ = os.WriteFile(p, b, 0o644)
}

// ---- the failing-case file --------------------------------------------------------

type failFile struct {
	Property   string          `json:"property"`
	Violations []string        `json:"violations"`
	Case       json.RawMessage `json:"case"`
}

func writeFail(prop string, c any, vs []Violation) {
	p := os.Getenv("VERIF_FAIL_OUT")
	if p == "" {
		return
	}
	raw, err := json.Marshal(c)
	if err != nil {
		raw = []byte(`"unencodable case"`)
	}
	ff := failFile{Property: prop, Case: raw}
	for _, v := range vs {
		ff.Violations = append(ff.Violations, v.String())
	}
	b, _ := json.MarshalIndent(ff, "", " ")
	_ = os.WriteFile(p, b, 0o644)
}

// judge is called by every property with the drawn case and its result. It
// records statistics, filters known findings and fails the rapid test (after
// saving the case) on a fresh violation.
type fataler interface {
	Fatalf(format string, args ...any)
}

func judge(t fataler, prop string, c any, res *CheckResult) {
	fresh, known := classify(prop, res.Violations)
	stats.record(prop, res, known)
	if len(fresh) > 0 {
		writeFail(prop, c, fresh)
		msgs := make([]string, 0, len(fresh))
		for _, v := range fresh {
			msgs = append(msgs, v.String())
		}
		t.Fatalf("%s violated:\n  %s", prop, strings.Join(msgs, "\n  "))
	}
}

