package verifbench

import (
	"fmt"
	"strings"
	"testing"

	"google.golang.org/protobuf/proto"
	"google.golang.org/protobuf/reflect/protoreflect"
	"google.golang.org/protobuf/reflect/protoregistry"
	"pgregory.net/rapid"
)

// C04 - RPC errors keep their code, message and details across protocols.

const ruleC04 = "rapid draws error specs (code 1-16, out-of-range / non-numeric status texts and errors that carry no code at all; message from all of UTF-8 incl. %, CR/LF, quotes, NUL, astral planes; 0..3 details with resolvable and unresolvable types; trailers-only or after k messages; bare HTTP statuses 400-599 with arbitrary bodies) x 6 client forms x all target configs. Oracle: client-parsed (code, message, detail types and values) equals the script's; HTTP status equals the independently written code table; bare HTTP failures map by the published HTTP->RPC table; out-of-range codes are relayed or mapped to unknown/internal. Non-trivial = the error crossed a protocol/codec boundary; distinct by hash(code, message, #details, position, client and backend triple)."

func init() { registerScenarioProp("C04", ruleC04, checkC04) }

var rawCodes = []string{codeRawNone, codeRawNone, "17", "18", "99", "2147483647", "4294967295", "4294967296", "-1", "abc", "", "0x10", "1e1", "5x"}

func TestC04(t *testing.T) {
	rapid.Check(t, func(t *rapid.T) {
		o := genOpts{maxBlob: 12, backendKinds: []string{"error", "error", "trailers_only", "http_status"}, noText: true}
		sc := genScenario(t, o)
		b := &sc.Backend
		if b.Err != nil {
			b.Err.Message = strings.TrimSpace(genErrMessage(t))
			restInvolved := contains(sc.Config.Protocols, ProtoREST) || sc.Client.Form == FormREST
			nd := rapid.IntRange(0, 3).Draw(t, "ndetails")
			b.Err.Details = nil
			for i := 0; i < nd; i++ {
				b.Err.Details = append(b.Err.Details, genDetail(t, "detail", restInvolved && rapid.IntRange(0, 3).Draw(t, "resolvable_only") != 0))
			}
			if rapid.IntRange(0, 5).Draw(t, "raw_code") == 0 {
				b.CodeRaw = rapid.SampledFrom(rawCodes).Draw(t, "code_raw")
				if b.CodeRaw == "" {
					b.CodeRaw = "17"
				}
			}
		}
		if b.Kind == "http_status" {
			b.HTTPStatus = rapid.SampledFrom([]int{400, 401, 403, 404, 405, 408, 409, 413, 418, 429, 431, 500, 501, 502, 503, 504, 505, 511, 599}).Draw(t, "http_status4xx")
			b.RawBody = []byte(rapid.SampledFrom([]string{"", "oops", "<html>bad gateway</html>", "{}", `{"message":"hm"}`, "\x00\x01\x02", "null", "[]"}).Draw(t, "raw_body2"))
		}
		judge(t, "C04", sc, checkC04(sc))
	})
}

func genErrMessage(t *rapid.T) string {
	switch rapid.IntRange(0, 4).Draw(t, "msg_kind") {
	case 0:
		return rapid.SampledFrom([]string{"", "plain", "100% wrong", "line1\r\nline2", `say "hi"`, "nul\x00byte", "\U0001F4A9 astral", "tab\tsep", "%41%zz%", "ünï", "a:b: c", "日本語のエラー", "back\\slash", "{\"json\":true}", "<html>", "+plus&amp=eq"}).Draw(t, "msg_pool")
	case 1:
		return strings.ToValidUTF8(rapid.StringN(0, 60, -1).Draw(t, "msg_rand"), "?")
	case 2:
		return strings.Repeat(rapid.SampledFrom([]string{"long ", "é", "%"}).Draw(t, "msg_unit"), rapid.IntRange(1, 400).Draw(t, "msg_rep"))
	default:
		return genString(t, "msg", 40)
	}
}

func detailsEqual(a, b []Detail) (bool, string) {
	if len(a) != len(b) {
		return false, fmt.Sprintf("%d details vs %d", len(a), len(b))
	}
	for i := range a {
		if a[i].Type != b[i].Type {
			return false, fmt.Sprintf("detail %d type %q vs %q", i, a[i].Type, b[i].Type)
		}
		if string(a[i].Value) == string(b[i].Value) {
			continue
		}
		mt, err := protoregistry.GlobalTypes.FindMessageByName(protoreflect.FullName(a[i].Type))
		if err != nil {
			return false, fmt.Sprintf("detail %d value bytes differ", i)
		}
		x, y := mt.New().Interface(), mt.New().Interface()
		if proto.Unmarshal(a[i].Value, x) != nil || proto.Unmarshal(b[i].Value, y) != nil || !proto.Equal(x, y) {
			return false, fmt.Sprintf("detail %d value differs", i)
		}
	}
	return true, ""
}

func checkC04(sc *Scenario) *CheckResult {
	res := &CheckResult{}
	out := runScenario(sc)
	if out.BuildErr != "" || out.ConfigErr != "" {
		res.Skipped = true
		return res
	}
	if panicViolation(res, out) {
		return res
	}
	cv := out.Client
	view := out.Backend
	c := &sc.Client
	b := &sc.Backend
	ct := clientTriple(c, out.Sent)
	bt := view.triple()
	res.class("form=%s target=%s kind=%s outcome=%s", c.Form, strings.SplitN(bt, "+", 2)[0], b.Kind, cv.outcome())
	if view == nil {
		res.class("not_invoked")
		return res
	}
	pos := "after_messages"
	if b.Kind == "trailers_only" || len(b.Msgs) == 0 {
		pos = "immediate"
	}
	res.Key = fmt.Sprintf("%s|%s|%s|%s|%v|%s|%d", ct, bt, b.Kind, pos, b.Err, b.CodeRaw, b.HTTPStatus)
	res.NonTrivial = ct != bt
	res.Sample = map[string]any{"client": ct, "backend": bt, "kind": b.Kind, "script_error": b.Err.String(), "code_raw": b.CodeRaw, "http_status": b.HTTPStatus,
		"client_status": cv.Status, "client_outcome": cv.outcome(), "client_error": cv.Err.String()}
	if ct == bt {
		res.class("passthrough")
		return res
	}
	if requestFailed(view, out) {
		// the request itself failed: the client sees that error, not the backend's script
		res.class("request_failed")
		return res
	}
	if cv.OK {
		res.violate("error_became_ok", "c04:ok", "backend ended the RPC with %s (kind %s, status %d) but the client observed OK", b.Err, b.Kind, b.HTTPStatus)
		return res
	}
	if cv.Err == nil {
		res.violate("no_outcome", "c04:no_outcome", "client observed neither OK nor an error")
		return res
	}
	unaryClient := c.Form == FormConnectUnary || c.Form == FormConnectGet || c.Form == FormREST
	checkStatus := func(code int64) {
		if !unaryClient || cv.HTTPLevel {
			return
		}
		want, ok := httpStatusForCode[code]
		if !ok {
			if cv.Status < 500 || cv.Status > 599 {
				res.violate("status_table", "c04:status", "out-of-range code %d must use a 5xx HTTP status, got %d", code, cv.Status)
			}
			return
		}
		if cv.Status != want {
			res.violate("status_table", "c04:status", "code %s must use HTTP status %d for a %s client, got %d", codeName(code), want, c.Form, cv.Status)
		}
	}
	switch b.Kind {
	case "error", "trailers_only":
		want := b.Err
		rawApplies := b.CodeRaw != ""
		if view.Protocol == ProtoREST {
			_, rawApplies = restRawCode(b)
		}
		if rawApplies {
			// out-of-range / non-numeric: relayed numerically or mapped to a server error
			relayed := false
			if n, ok := parseUint32(b.CodeRaw); ok && n != 0 && (cv.Err.Code == int64(n) || cv.Err.Code == int64(int32(n))) {
				// google.rpc.Status carries the code as int32: the same 32 bits count as relayed
				relayed = true
			}
			fallback := int64(-1)
			if view.Protocol == ProtoConnect && view.Sub != "stream" {
				// an unparseable Connect error body leaves only the HTTP status to go by
				st := httpStatusForCode[b.Err.Code]
				if st == 0 {
					st = 500
				}
				fallback = codeForHTTPStatus(st)
			}
			if !relayed && cv.Err.Code != 2 && cv.Err.Code != 13 && cv.Err.Code != fallback {
				res.violate("bad_code_mapping", "c04:rawcode", "backend status text %q was neither relayed nor mapped to unknown/internal: client saw %s", b.CodeRaw, cv.Err)
			}
			checkStatus(cv.Err.Code)
			res.class("raw_code relayed=%v", relayed)
			return res
		}
		if b.CodeRaw != "" {
			want = &ErrSpec{Code: want.Code, Message: want.Message}
		}
		if cv.HTTPLevel {
			res.violate("http_level", "c04:http_level", "backend error %s reached the %s client as a bare HTTP %d", want, c.Form, cv.Status)
			return res
		}
		if c.Form == FormREST {
			// unresolvable types cannot be expressed as JSON Any: only "non-OK" is asserted then
			for _, d := range want.Details {
				if !detailResolvable(d) {
					checkStatusLoose(res, cv)
					res.class("rest_client_unresolvable_detail")
					return res
				}
			}
		}
		if cv.Err.Code != want.Code {
			res.violate("code_changed", "c04:code", "backend error code %s became %s (client error %s)", codeName(want.Code), codeName(cv.Err.Code), cv.Err)
		}
		if cv.Err.Message != want.Message {
			res.violate("message_changed", "c04:message", "backend error message %q became %q", want.Message, cv.Err.Message)
		}
		wantDetails := want.Details
		if view.Protocol == ProtoREST {
			// the scripted REST backend cannot express unresolvable details either and sends none
			for _, d := range wantDetails {
				if !detailResolvable(d) {
					wantDetails = nil
					break
				}
			}
		}
		if c.Form == FormREST {
			// unresolvable types cannot be expressed as JSON Any: only "non-OK" is asserted then
			all := true
			for _, d := range wantDetails {
				if !detailResolvable(d) {
					all = false
				}
			}
			if !all {
				checkStatusLoose(res, cv)
				return res
			}
		}
		if ok, why := detailsEqual(cv.Err.Details, wantDetails); !ok {
			res.violate("details_changed", "c04:details", "error details differ: %s (script %d details, client %d)", why, len(wantDetails), len(cv.Err.Details))
		}
		checkStatus(want.Code)
	case "http_status":
		if b.HTTPStatus < 400 {
			return res
		}
		want := codeForHTTPStatus(b.HTTPStatus)
		if cv.Err.Code != want {
			res.violate("http_mapping", "c04:http_mapping", "backend failed with bare HTTP %d (content-type %q, body %q): client must see %s, saw %s", b.HTTPStatus, b.RawCT, b.RawBody, codeName(want), cv.Err)
		}
		checkStatus(cv.Err.Code)
	}
	return res
}

func checkStatusLoose(res *CheckResult, cv *ClientView) {
	if cv.Status/100 == 2 {
		res.violate("error_became_ok", "c04:ok", "error with inexpressible details reached the REST client with HTTP %d", cv.Status)
	}
}

func parseUint32(s string) (uint32, bool) {
	var n uint64
	if s == "" {
		return 0, false
	}
	for _, c := range s {
		if c < '0' || c > '9' {
			return 0, false
		}
		n = n*10 + uint64(c-'0')
		if n > 0xffffffff {
			return 0, false
		}
	}
	return uint32(n), true
}
