package verifbench

import (
	"encoding/json"
	"fmt"
	"strings"
	"testing"

	"connectrpc.com/vanguard"
	"google.golang.org/protobuf/reflect/protoreflect"
	"pgregory.net/rapid"
)

// C15 - the outcome of an RPC is independent of earlier traffic.

const ruleC15 = "rapid draws a configuration, a history of 1..12 earlier RPCs on ONE long-lived Transcoder (valid RPCs of every form incl. REST targets with varying path variables; requests failing validation; bodies cut mid-message; messages over the size limit; corrupt compressed payloads; backends that panic, violate their protocol, answer in the wrong codec, keep writing after the end or close the request body twice; RPCs of a second service that has options and a type resolver of its own) and a probe RPC. The history is replayed twice: with the instrumented buffer pool (tag verif: deterministic LIFO reuse, poison-on-release, double-release / live-reuse / write-after-release bookkeeping) and with the regular sync.Pool under GOMAXPROCS=1. Oracle: after every step the canonical outcome of the probe on the used Transcoder (client status, outcome, messages, headers, trailers; backend-observed messages) equals the probe's outcome on a freshly built Transcoder, and the pool bookkeeping reports no double release, no hand-out of a live buffer and no broken poison. Non-trivial = the history contains a failing request that used compression or pooled buffers before the probe; distinct by hash(config, history, probe)."

type histCase struct {
	Config  Config     `json:"config"`
	History []Scenario `json:"history"`
	Probe   Scenario   `json:"probe"`
}

func init() {
	registerProp(&propDef{ID: "C15", Rule: ruleC15, Replay: func(raw json.RawMessage) (*CheckResult, error) {
		var c histCase
		if err := json.Unmarshal(raw, &c); err != nil {
			return nil, err
		}
		return checkC15(&c), nil
	}})
}

var c15PathVarMethods = []string{"UnaryGet", "UnaryField", "UnaryMulti", "Page", "PutPage", "Download"}

func restOnly(cfg *Config) bool { return len(cfg.Protocols) == 1 && cfg.Protocols[0] == ProtoREST }

func genHistoryAction(t *rapid.T, cfg *Config) Scenario {
	o := genOpts{maxBlob: 40, backendKinds: []string{"ok", "ok", "error", "http_status"}, segmentation: rapid.IntRange(0, 3).Draw(t, "h_segmentation") == 0}
	if restOnly(cfg) {
		o.methods = c15PathVarMethods // every request is turned into a URL with path variables of its own
	}
	sc := Scenario{Config: *cfg}
	sc.Client = genClient(t, cfg, o)
	sc.Backend = genBackend(t, &sc.Client, o)
	k := rapid.IntRange(0, 11).Draw(t, "h_kind")
	if k >= 10 && !(len(cfg.Protocols) == 1 && cfg.Protocols[0] == ProtoConnect && len(cfg.Codecs) == 1 && cfg.Codecs[0] == CodecProto) {
		k = 0
	}
	switch k {
	case 10, 11:
		// un-enveloped proto backend, unary JSON client: the response exceeds the limit in its
		// second Write, while what was buffered until then is a decodable message on its own
		sc.Client = genClient(t, cfg, genOpts{forms: []string{FormConnectUnary, FormREST}, methods: []string{"Unary", "UnaryField", "UnaryMulti"}, maxBlob: 20, noText: true})
		sc.Client.Codec = CodecJSON
		sc.Client.Compression = ""
		sc.Client.MsgRaw = nil
		m := newMessage(msgAll)
		fs := m.ProtoReflect().Descriptor().Fields()
		n := rapid.IntRange(1500, 3500).Draw(t, "h_first_field")
		m.ProtoReflect().Set(fs.ByName("string_value"), valueOfString(strings.Repeat("x", n)))
		m.ProtoReflect().Set(fs.ByName("bytes_value"), protoreflect.ValueOfBytes([]byte(strings.Repeat("y", 4200))))
		first := newMessage(msgAll)
		first.ProtoReflect().Set(fs.ByName("string_value"), valueOfString(strings.Repeat("x", n)))
		sc.Backend = Backend{Kind: "ok", Msgs: [][]byte{mustMarshal(m)}, MsgRaw: []bool{false}, WriteSplits: []int{len(mustMarshal(first))}, IgnoreReadErr: true, TrailerStyle: "declared", CloseBody: rapid.Bool().Draw(t, "h_close_body"), CloseAfterWrites: rapid.IntRange(0, 1).Draw(t, "h_close_after")}
		sc.Note = "response_over_limit_decodable_prefix"
	case 0, 1:
		sc.Note = "valid"
	case 2:
		sc.Note = "reject:" + genRejection(t, &sc)
		sc.Config = *cfg // rejections must not alter the shared configuration
	case 3:
		sc.Client.Fault = &Fault{Kind: FaultCut, At: rapid.IntRange(1, 300).Draw(t, "h_cut")}
		sc.Note = "cut"
	case 4:
		// over the limit (the shared config has a 4 KiB limit)
		if len(sc.Client.Msgs) > 0 {
			mi := lookupMethod(benchService, sc.Client.Method)
			m := newMessage(mi.In)
			if fd := m.ProtoReflect().Descriptor().Fields().ByName("string_value"); fd != nil {
				big := genMessage(t, mi.In, "h_big", msgOpts{maxDepth: 1, maxFields: 3, maxBlob: 20})
				big.ProtoReflect().Set(fd, valueOfString(strings.Repeat("over the limit ", 600)))
				sc.Client.Msgs[0] = mustMarshal(big)
			}
		}
		sc.Note = "over_limit"
	case 5:
		if sc.Client.Compression == "" {
			sc.Client.Compression = CompGzip
			for range sc.Client.Msgs {
				sc.Client.MsgRaw = append(sc.Client.MsgRaw, false)
			}
		}
		sc.Client.Fault = &Fault{Kind: rapid.SampledFrom([]string{FaultBitFlip, FaultGarbage, FaultCut}).Draw(t, "h_corrupt"), At: rapid.IntRange(8, 200).Draw(t, "h_corrupt_at"), Val: rapid.IntRange(0, 7).Draw(t, "h_bit")}
		sc.Note = "corrupt_compressed"
	case 6:
		sc.Backend.Panic = true
		sc.Note = "backend_panic"
	case 7:
		sc.Backend.Fault = genFault(t, append(responseFaults, FaultExtraData))
		sc.Backend.Compress = true
		sc.Note = "backend_violation"
	case 8:
		sc.Backend.WriteAfter = true
		sc.Backend.Override = []KV{{"Content-Type", "text/plain"}}
		sc.Note = "backend_wrong_codec_late_writes"
	case 9:
		// big response over the limit, written in pieces
		mi := lookupMethod(benchService, sc.Client.Method)
		m := newMessage(mi.Out)
		if fd := m.ProtoReflect().Descriptor().Fields().ByName("string_value"); fd != nil {
			m.ProtoReflect().Set(fd, valueOfString(strings.Repeat("big response ", 700)))
		} else if fd := m.ProtoReflect().Descriptor().Fields().ByName("note"); fd != nil {
			m.ProtoReflect().Set(fd, valueOfString(strings.Repeat("big response ", 700)))
		}
		sc.Backend.Kind = "ok"
		sc.Backend.Msgs = [][]byte{mustMarshal(m)}
		sc.Backend.MsgRaw = []bool{false}
		sc.Backend.WriteChunk = rapid.SampledFrom([]int{100, 500, 1000}).Draw(t, "h_chunk")
		sc.Backend.IgnoreReadErr = true
		sc.Note = "response_over_limit"
	}
	if cfg.OtherOpts != nil && rapid.IntRange(0, 2).Draw(t, "h_other_service") == 0 {
		// an RPC of the second service, which has options (and possibly a type resolver) of its own
		ro := genOpts{maxBlob: 40, backendKinds: []string{"ok", "error"}}
		sc.Client = Client{Form: rapid.SampledFrom([]string{FormConnectUnary, FormGRPC, FormGRPCWeb}).Draw(t, "h_other_form"), Service: routeService, Method: "Get",
			Codec: rapid.SampledFrom([]string{CodecJSON, CodecJSON, CodecProto}).Draw(t, "h_other_codec")}
		sc.Client.Msgs = [][]byte{mustMarshal(genMessage(t, msgAll, "h_other_req", msgOpts{maxDepth: 1, maxFields: 4, maxBlob: 20}))}
		sc.Backend = genBackend(t, &sc.Client, ro)
		sc.Note = "other_service"
	}
	sc.Config = *cfg
	return sc
}

func TestC15(t *testing.T) {
	rapid.Check(t, func(t *rapid.T) {
		cfg := genConfig(t, genOpts{noText: true})
		if rapid.IntRange(0, 3).Draw(t, "unenveloped_proto_backend") == 0 {
			cfg.Protocols, cfg.Codecs = []string{ProtoConnect}, []string{CodecProto}
		}
		if rapid.IntRange(0, 5).Draw(t, "rest_only_backend") == 0 {
			// REST backend: every RPC is rendered into a URL from the rule's (shared) path template
			cfg.Protocols, cfg.Codecs = []string{ProtoREST}, append([]string(nil), rapid.SampledFrom([][]string{{CodecJSON}, {CodecProto, CodecJSON}}).Draw(t, "rest_codecs")...)
		}
		cfg.MaxMsg = 4096
		cfg.ViaDefaults = false
		c := &histCase{Config: cfg}
		n := rapid.IntRange(1, 12).Draw(t, "history_len")
		for i := 0; i < n; i++ {
			c.History = append(c.History, genHistoryAction(t, &cfg))
		}
		o := genOpts{maxBlob: 40, backendKinds: []string{"ok", "ok", "error"}}
		if restOnly(&cfg) {
			o.methods = c15PathVarMethods
		}
		c.Probe = Scenario{Config: cfg}
		c.Probe.Client = genClient(t, &cfg, o)
		c.Probe.Backend = genBackend(t, &c.Probe.Client, o)
		judge(t, "C15", c, checkC15(c))
	})
}

type probeObs struct {
	client  canonOutcome
	backend string
	panic   string
}

func observeProbe(sc *Scenario, shared *sharedTranscoder) (probeObs, *Outcome) {
	out := runScenarioOn(cloneScenario(sc), shared)
	var ob probeObs
	if out.BuildErr != "" || out.ConfigErr != "" {
		ob.panic = "unbuildable:" + out.BuildErr + out.ConfigErr
		return ob, out
	}
	if out.Hang {
		ob.panic = "hang"
		return ob, out
	}
	if out.Panic != "" && !out.PanicScripted {
		ob.panic = out.Panic
		return ob, out
	}
	ob.client = canonicalClient(sc, out)
	if out.Backend != nil {
		ob.backend = out.Backend.triple() + "|" + strings.Join(canonMsgs(out.Backend.Msgs), "|") + "|" + out.Backend.ReadErr + fmt.Sprint(len(out.Backend.Problems))
	}
	return ob, out
}

func checkC15(c *histCase) *CheckResult {
	res := &CheckResult{}
	raw, _ := json.Marshal(c)
	res.Key = string(raw)
	kinds := map[string]int{}
	for _, h := range c.History {
		k := h.Note
		if i := strings.Index(k, ":"); i > 0 {
			k = k[:i]
		}
		kinds[k]++
		if h.Note != "valid" && (h.Client.Compression != "" || h.Backend.Compress || len(h.Client.Msgs) > 0) {
			res.NonTrivial = true
		}
	}
	res.Sample = map[string]any{"config": c.Config, "history_kinds": kinds, "history_len": len(c.History), "probe": clientTriple(&c.Probe.Client, nil) + " " + c.Probe.Client.Method}
	for _, mode := range []string{"instrumented", "instrumented-fifo", "plain"} {
		if strings.HasPrefix(mode, "instrumented") {
			vanguard.VerifPoolEnable(true, mode == "instrumented-fifo")
		} else {
			vanguard.VerifPoolDisable()
		}
		fresh, err := newSharedTranscoder(c.Config)
		if err != nil {
			vanguard.VerifPoolDisable()
			res.Skipped = true
			return res
		}
		base, bout := observeProbe(&c.Probe, fresh)
		if strings.HasPrefix(base.panic, "unbuildable") {
			vanguard.VerifPoolDisable()
			res.Skipped = true
			return res
		}
		if base.panic != "" {
			vanguard.VerifPoolDisable()
			panicViolation(res, bout)
			return res
		}
		if strings.HasPrefix(mode, "instrumented") {
			vanguard.VerifPoolEnable(true, mode == "instrumented-fifo") // forget the fresh run: empty free list
		}
		used, err := newSharedTranscoder(c.Config)
		if err != nil {
			vanguard.VerifPoolDisable()
			res.Skipped = true
			return res
		}
		for i := range c.History {
			h := cloneScenario(&c.History[i])
			hout := runScenarioOn(h, used)
			if hout.Hang || (hout.Panic != "" && !hout.PanicScripted && hout.PanicInVanguard) {
				vanguard.VerifPoolDisable()
				panicViolation(res, hout)
				return res
			}
			if strings.HasPrefix(mode, "instrumented") {
				st := vanguard.VerifPoolSnapshot(true)
				if st.DoublePuts > 0 {
					res.violate("double_release", "c15:pool:double_put", "history step %d (%s): %d pooled buffer(s) released twice", i, h.Note, st.DoublePuts)
				}
				if st.LiveGets > 0 {
					res.violate("live_reuse", "c15:pool:live_get", "history step %d (%s): a buffer still in use was handed out again", i, h.Note)
				}
				if st.PoisonBroken > 0 {
					res.violate("write_after_release", "c15:pool:poison", "history step %d (%s): %d released buffer(s) were written to after their release", i, h.Note, st.PoisonBroken)
				}
				if st.Live > 0 {
					res.class("live_buffers_after_return kind=%s", strings.SplitN(h.Note, ":", 2)[0])
					vanguard.VerifPoolForgetLive()
				}
				if len(res.Violations) > 0 {
					vanguard.VerifPoolDisable()
					return res
				}
			}
			ob, pout := observeProbe(&c.Probe, used)
			if ob.panic != "" {
				vanguard.VerifPoolDisable()
				if pout.Hang || pout.Panic != "" {
					panicViolation(res, pout)
				} else {
					res.violate("probe_failed", "c15:probe", "probe after step %d: %s", i, ob.panic)
				}
				return res
			}
			if d := base.client.diff(ob.client); len(d) > 0 {
				res.violate("history_dependent", "c15:outcome:"+mode, "[%s pool] after history step %d (%s) the probe's outcome differs from a fresh Transcoder: %s", mode, i, h.Note, strings.Join(d, "; "))
			}
			if base.backend != ob.backend {
				res.violate("history_dependent", "c15:backend:"+mode, "[%s pool] after history step %d (%s) the backend of the probe observed a different request than on a fresh Transcoder", mode, i, h.Note)
			}
			if strings.HasPrefix(mode, "instrumented") {
				st := vanguard.VerifPoolSnapshot(true)
				if st.DoublePuts > 0 || st.LiveGets > 0 || st.PoisonBroken > 0 {
					res.violate("pool_misuse", "c15:pool:probe", "probe after step %d (%s): double puts %d, live gets %d, broken poison %d", i, h.Note, st.DoublePuts, st.LiveGets, st.PoisonBroken)
				}
				vanguard.VerifPoolForgetLive()
			}
			if len(res.Violations) > 0 {
				vanguard.VerifPoolDisable()
				return res
			}
		}
	}
	vanguard.VerifPoolDisable()
	for k, n := range kinds {
		res.class("history_kind=%s", k)
		_ = n
	}
	return res
}
