package verifbench

import (
	"os"
	"connectrpc.com/vanguard"
	"fmt"
	"strings"
	"testing"

	"google.golang.org/protobuf/proto"
	"google.golang.org/protobuf/reflect/protoreflect"
	"pgregory.net/rapid"
)

// C01 - messages arrive intact across every protocol, codec and compression pairing.

const ruleC01 = "rapid draws a Scenario {config: target protocol subset x codec list x compression list; client: one of 6 wire forms, method, codec, JSON style, compression, per-frame compressed flags, 0..4 schema-driven messages; backend: 0..4 response messages, compression, per-frame flags, trailers}. One case in six places the service message limit on a field boundary of a highly compressible message (compressed form fits, plain form does not). Two cases in three run under the instrumented buffer pool (tag verif: released buffers are overwritten with 0xA5 and handed out again first). Configurations may register a second service with other options (and a type resolver of its own), before or after, and draw the GET URL limit; one case in thirty is a client stream without a single message toward a REST upload binding; backends may prepare their response headers before reading the request and close the request body twice. Oracle: independent decoders on both sides; a fully valid exchange with a compliant backend answering OK must end OK; OK outcome => backend saw exactly the sent sequence and client saw exactly the produced sequence; error outcome => prefixes only. Non-trivial = backend invoked with a (protocol,codec,compression) triple different from the client's and at least one non-default message; distinct by hash(form, triples, message bytes)."

func init() { registerScenarioProp("C01", ruleC01, checkC01) }

func TestC01(t *testing.T) {
	rapid.Check(t, func(t *rapid.T) {
		sc := genScenario(t, genOpts{allowBig: true, segmentation: rapid.IntRange(0, 3).Draw(t, "use_segmentation") == 0})
		if rapid.IntRange(0, 5).Draw(t, "limit_at_boundary") == 0 {
			limitAtFieldBoundary(t, sc)
		}
		if rapid.IntRange(0, 29).Draw(t, "empty_stream_to_rest") == 0 {
			// a client stream without a single message toward a backend whose request is built from
			// the first message (the only client-streaming method with a REST binding is Upload)
			sc.Config.Protocols = []string{ProtoREST}
			o := genOpts{forms: []string{FormConnectStream, FormGRPC, FormGRPCWeb}, methods: []string{"Upload"}, noText: true}
			sc.Client = genClient(t, &sc.Config, o)
			sc.Client.Msgs, sc.Client.MsgRaw, sc.Client.Fault = nil, nil, nil
			sc.Backend = genBackend(t, &sc.Client, o)
		}
		judge(t, "C01", sc, checkC01(sc))
	})
}

// projectResponse reduces a response message to what a REST client can see
// under the rule's response_body selector.
func projectResponse(rule *RuleSpec, m proto.Message) proto.Message {
	if rule == nil || rule.ResponseBody == "" || rule.ResponseBody == "*" {
		return m
	}
	out := newMessage(string(m.ProtoReflect().Descriptor().FullName()))
	fd := m.ProtoReflect().Descriptor().Fields().ByName(protoName(rule.ResponseBody))
	if fd == nil {
		return m
	}
	if m.ProtoReflect().Has(fd) {
		out.ProtoReflect().Set(fd, m.ProtoReflect().Get(fd))
	}
	return out
}

// panicViolation turns a recovered panic into a violation (any property).
func panicViolation(res *CheckResult, out *Outcome) bool {
	if out.Hang && out.HangWhy != "" {
		res.violate("hang", "hang", "the exchange wedged: %s", out.HangWhy)
		return true
	}
	if out.Hang {
		res.violate("hang", "hang", "ServeHTTP did not return within %s although both peers had finished", watchdog)
		return true
	}
	if out.Panic == "" || out.PanicScripted {
		return false
	}
	lines := strings.Split(out.Panic, "\n")
	frame := ""
	for _, l := range lines[1:] {
		if strings.HasPrefix(l, "connectrpc.com/vanguard.") {
			frame = l
			if i := strings.Index(frame, "("); i > 0 {
				frame = frame[:i]
			}
			break
		}
	}
	if out.PanicInVanguard {
		res.violate("panic", "panic:"+frame, "ServeHTTP panicked: %s", out.Panic)
	} else {
		res.violate("harness_panic", "harness-panic", "panic outside vanguard (harness bug?): %s", out.Panic)
	}
	return true
}

// sentMessagesForBackend: the logical request sequence the backend must see.
func respScriptMsgs(sc *Scenario, view *BackendView) []proto.Message {
	if view == nil || view.MI == nil {
		return nil
	}
	var out []proto.Message
	for _, b := range sc.Backend.Msgs {
		m := newMessage(view.MI.Out)
		_ = proto.Unmarshal(b, m)
		out = append(out, m)
	}
	return out
}

func httpBodyConcat(msgs []proto.Message, rule *RuleSpec) (ct string, data []byte, ok bool) {
	for _, m := range msgs {
		sub, _, isBody, err := expectedRESTResponseField(*rule, m)
		if err != nil || !isBody {
			return "", nil, false
		}
		hb := sub.ProtoReflect()
		if !hb.IsValid() {
			continue
		}
		if c := hb.Get(hb.Descriptor().Fields().ByName("content_type")).String(); c != "" && ct == "" {
			ct = c
		}
		data = append(data, hb.Get(hb.Descriptor().Fields().ByName("data")).Bytes()...)
	}
	return ct, data, true
}

func getHTTPBodyData(m proto.Message, rule *RuleSpec) []byte {
	if m == nil {
		return nil
	}
	sub, _, isBody, err := expectedRESTResponseField(*rule, m)
	if err != nil || !isBody {
		return nil
	}
	hb := sub.ProtoReflect()
	if !hb.IsValid() {
		return nil
	}
	return hb.Get(hb.Descriptor().Fields().ByName("data")).Bytes()
}

// normRESTPresence: google.api.http cannot tell an absent sub-message named by
// body / response_body from a present-but-empty one (the HTTP body has to be
// some JSON document); both sides are normalised to "absent" before comparing.
func normRESTPresence(field string, ms []proto.Message) []proto.Message {
	if field == "" || field == "*" {
		return ms
	}
	out := make([]proto.Message, len(ms))
	for i, m := range ms {
		out[i] = m
		if m == nil {
			continue
		}
		m = proto.Clone(m)
		dropNullValues(m.ProtoReflect())
		out[i] = m
		fd := m.ProtoReflect().Descriptor().Fields().ByName(protoName(field))
		if fd == nil || fd.Message() == nil || fd.IsList() || fd.IsMap() || !m.ProtoReflect().Has(fd) {
			continue
		}
		m = proto.Clone(m)
		dropNullValues(m.ProtoReflect())
		out[i] = m
		empty := true
		m.ProtoReflect().Get(fd).Message().Range(func(protoreflect.FieldDescriptor, protoreflect.Value) bool { empty = false; return false })
		if empty {
			c := proto.Clone(m)
			c.ProtoReflect().Clear(fd)
			out[i] = c
		}
	}
	return out
}

func restRuleInvolved(out *Outcome, view *BackendView) *RuleSpec {
	if out.Sent != nil && out.Sent.Rule != nil {
		return out.Sent.Rule
	}
	if view != nil && view.Rule != nil {
		return view.Rule
	}
	return nil
}

func isPrefixSeq(got, want []proto.Message) (bool, string) {
	if len(got) > len(want) {
		return false, fmt.Sprintf("%d messages where at most %d exist", len(got), len(want))
	}
	for i := range got {
		if got[i] == nil {
			return false, fmt.Sprintf("message %d is undecodable", i)
		}
		if canon(got[i]) != canon(want[i]) {
			return false, fmt.Sprintf("message %d differs: got %s want %s", i, msgJSON(got[i]), msgJSON(want[i]))
		}
	}
	return true, ""
}

func featureSig(sc *Scenario, view *BackendView, dir string) string {
	// coarse root-cause features used in violation signatures
	rawFrame := false
	if dir == "request" {
		for i, r := range sc.Client.MsgRaw {
			if r && i < len(sc.Client.Msgs) {
				rawFrame = true
			}
		}
	} else {
		for i, r := range sc.Backend.MsgRaw {
			if r && i < len(sc.Backend.Msgs) {
				rawFrame = true
			}
		}
	}
	s := dir
	if rawFrame {
		s += ":rawframe"
	}
	unenv := false
	if dir == "request" {
		unenv = view != nil && (view.Protocol == ProtoREST || (view.Protocol == ProtoConnect && view.Sub != "stream"))
	} else {
		unenv = !formEnveloped(sc.Client.Form)
	}
	if unenv {
		s += ":to_unenveloped"
		// several messages compressed one by one and concatenated under one Content-Encoding
		if dir == "request" && len(sc.Client.Msgs) > 1 && sc.Client.Compression != "" && sc.Client.Compression != CompGzip {
			s += ":multimember"
		}
		if dir == "response" && len(sc.Backend.Msgs) > 1 && sc.Backend.Compress && !contains(sc.Client.Accept[:min(1, len(sc.Client.Accept))], CompGzip) {
			s += ":multimember"
		}
	}
	return s
}

func checkC01(sc *Scenario) *CheckResult {
	res := &CheckResult{}
	// Two of three cases run under the instrumented buffer pool (tag verif): a released buffer is
	// overwritten with 0xA5 and handed out again first, so data read from a buffer after its release
	// shows up as corrupted messages under the exact-delivery oracle below, and the pool's own
	// bookkeeping reports double releases and writes after release.
	instrumented := (len(sc.Client.Msgs)+len(sc.Backend.Msgs)+len(sc.Client.Headers)+len(sc.Config.Protocols))%3 != 0
	if instrumented {
		vanguard.VerifPoolEnable(true, len(sc.Backend.Trailers)%2 == 1)
		defer vanguard.VerifPoolDisable()
		defer func() {
			st := vanguard.VerifPoolSnapshot(true)
			vanguard.VerifPoolForgetLive()
			if st.DoublePuts > 0 {
				res.violate("double_release", "c01:pool:double_put", "%d pooled buffer(s) were released twice", st.DoublePuts)
			}
			if st.LiveGets > 0 {
				res.violate("live_reuse", "c01:pool:live_get", "%d buffer(s) handed out while still in use", st.LiveGets)
			}
			if st.PoisonBroken > 0 {
				res.violate("write_after_release", "c01:pool:poison", "%d released buffer(s) were written to after their release", st.PoisonBroken)
			}
		}()
	}
	out := runScenario(sc)
	if out.BuildErr != "" {
		res.Skipped = true
		return res
	}
	if out.ConfigErr != "" {
		res.class("config_rejected")
		res.Skipped = true
		return res
	}
	if panicViolation(res, out) {
		return res
	}
	cv := out.Client
	view := out.Backend
	ct := clientTriple(&sc.Client, out.Sent)
	bt := view.triple()
	res.class("form=%s target=%s outcome=%s", sc.Client.Form, strings.SplitN(bt, "+", 2)[0], cv.outcome())
	res.Key = fmt.Sprintf("%s|%s|%x|%x", ct, bt, sc.Client.Msgs, sc.Backend.Msgs)
	res.Sample = map[string]any{"client": ct, "backend": bt, "method": sc.Client.Method, "outcome": cv.outcome(),
		"req": sampleMsgs(out.Sent.Msgs), "resp_count": len(sc.Backend.Msgs)}
	if view == nil {
		if cv.OK {
			res.violate("ok_without_backend", "ok-without-backend", "client saw OK but no backend handler ran")
		}
		if os.Getenv("VERIF_C01_ERRCLASS") != "" {
			res.class("NOBACKEND status=%d form=%s http2=%v method=%s cfg=%v note=%s", cv.Status, sc.Client.Form, sc.Client.HTTP2, sc.Client.Method, sc.Config.Protocols, sc.Note)
		}
		restInexpressible := false
		if contains(sc.Config.Protocols, ProtoREST) && (sc.Client.Form == FormREST || !contains(sc.Config.Protocols, formProtocol(sc.Client.Form))) {
			for _, m := range out.Sent.Msgs {
				if hasUnknownEnum(m.ProtoReflect()) {
					restInexpressible = true // an enum number without a name has no REST parameter form
				}
			}
		}
		if !cv.OK && !restTargetUnroutable(sc) && !restInexpressible && !strings.Contains(sc.Note, "limit_at_boundary") {
			// a valid request in a form, codec and compression the transcoder knows, for a method the
			// service can serve: it has to be dispatched (the only legitimate refusal the generator can
			// produce is a REST-only service asked for a method without binding)
			res.violate("spurious_rejection", "c01:rejected", "valid %s request for %s (%s) was not dispatched: HTTP %d %s", sc.Client.Form, sc.Client.Method, ct, cv.Status, cv.outcome())
		}
		return res
	}
	res.NonTrivial = ct != bt && (anyNonDefault(sc.Client.Msgs) || anyNonDefault(sc.Backend.Msgs))
	if !cv.OK && sc.Backend.Kind == "ok" && !strings.Contains(sc.Note, "limit_at_boundary") {
		// Every generated message can be carried by every codec involved, the backend is compliant and
		// answers OK: the exchange has to succeed ("observes exactly the sequence" leaves no room for a
		// spurious failure). The one region where it does not is known finding D10.
		msg := ""
		if cv.Err != nil {
			msg = cv.Err.Message
		}
		res.violate("spurious_failure", "c01:"+featureSig(sc, view, "request")+":failed", "valid exchange (%s -> %s, backend answers OK) failed: %s HTTP %d %q; backend problems %v", ct, bt, cv.outcome(), cv.Status, msg, view.Problems)
	}
	if !cv.OK && sc.Backend.Kind == "ok" && os.Getenv("VERIF_C01_ERRCLASS") != "" {
		msg := ""
		if cv.Err != nil {
			msg = cv.Err.Message
			if len(msg) > 60 {
				msg = msg[:60]
			}
		}
		res.class("ERR %s note=%s status=%d %s->%s backendproblems=%d msg=%q", cv.outcome(), sc.Note, cv.Status, sc.Client.Form, view.triple(), len(view.Problems), msg)
	}
	sent := out.Sent.Msgs
	gotReq := view.Msgs
	rr := restRuleInvolved(out, view)
	// --- request direction ---
	backendUnenveloped := view.Protocol == ProtoREST || (view.Protocol == ProtoConnect && view.Sub != "stream")
	if backendUnenveloped && len(sent) == 0 && len(gotReq) == 1 && gotReq[0] != nil {
		// an un-enveloped request cannot express "no message": the empty message stands in
		sent = []proto.Message{newMessage(view.MI.In)}
		res.class("empty_stream_to_unenveloped")
	}
	if view.Protocol == ProtoREST && view.Rule != nil && len(sent) > 1 && len(gotReq) == 1 && gotReq[0] != nil {
		// client stream into a google.api.HttpBody body: the data is concatenated
		if fd := gotReq[0].ProtoReflect().Descriptor().Fields().ByName(protoName(view.Rule.Body)); fd != nil && fd.Message() != nil && isHTTPBody(fd.Message()) {
			merged := proto.Clone(sent[0])
			var data []byte
			for _, m := range sent {
				hb := m.ProtoReflect().Get(fd).Message()
				data = append(data, hb.Get(hb.Descriptor().Fields().ByName("data")).Bytes()...)
			}
			if !cv.OK {
				// a failed RPC may have handed the backend a prefix of the upload only
				ghb := gotReq[0].ProtoReflect().Get(fd).Message()
				if got := ghb.Get(ghb.Descriptor().Fields().ByName("data")).Bytes(); len(got) < len(data) && string(data[:len(got)]) == string(got) {
					data = got
				}
			}
			hb := merged.ProtoReflect().Mutable(fd).Message()
			hb.Set(hb.Descriptor().Fields().ByName("data"), protoreflect.ValueOfBytes(data))
			sent = []proto.Message{merged}
			res.class("httpbody_client_stream")
		}
	}
	if rr != nil {
		sent = normRESTPresence(rr.Body, sent)
		gotReq = normRESTPresence(rr.Body, gotReq)
	}
	if cv.OK {
		if len(view.Msgs) != len(sent) {
			res.violate("request_count", "c01:"+featureSig(sc, view, "request"),
				"client sent %d messages, backend observed %d (client outcome OK); backend problems: %v", len(sent), len(view.Msgs), view.Problems)
		}
	}
	if !cv.OK && backendUnenveloped && len(view.Body) == 0 && view.Snap.Method != "GET" {
		// The RPC failed before any request data was forwarded (e.g. the message is over the limit):
		// the un-enveloped backend was handed an empty body, i.e. nothing of the client's data, and the
		// client sees the error. (Same reading as C09: an empty body is not a complete-looking message.)
		res.class("failed_before_forwarding_unenveloped")
		gotReq = nil
	}
	if ok, why := isPrefixSeq(gotReq, sent); !ok {
		if quotedWrapperOnly(gotReq, sent) {
			// known finding (see C07): a StringValue whose text is a JSON string literal loses its quotes
			// when it travels as a REST parameter
			res.violate("request_altered", "c01:request:quoted_stringvalue", "backend observed a request sequence that is not what the client sent: %s", why)
		} else if cv.OK || !strings.Contains(why, "undecodable") {
			res.violate("request_altered", "c01:"+featureSig(sc, view, "request"),
				"backend observed a request sequence that is not what the client sent: %s; backend problems: %v", why, view.Problems)
		}
	}
	// --- response direction ---
	produced := respScriptMsgs(sc, view)
	if sc.Backend.Kind != "ok" {
		return res
	}
	if view.Protocol == ProtoREST || (view.Protocol == ProtoConnect && view.Sub != "stream") {
		if len(produced) > 1 && !(view.Protocol == ProtoREST && view.Rule != nil && isBodyRule(view)) {
			produced = produced[:1]
		}
	}
	rule := out.Sent.Rule
	if sc.Client.Form == FormREST && rule != nil {
		if _, _, isBody, _ := expectedRESTResponseField(*rule, newMessage(view.MI.Out)); isBody {
			// concatenated data, as that form defines
			if cv.OK {
				_, want, _ := httpBodyConcat(produced, rule)
				var got []byte
				if len(cv.Msgs) > 0 {
					got = getHTTPBodyData(cv.Msgs[0], rule)
				}
				if string(got) != string(want) {
					res.violate("response_altered", "c01:"+featureSig(sc, view, "response"), "REST client received %d body bytes, handler produced %d (content differs)", len(got), len(want))
				}
			}
			return res
		}
		var proj []proto.Message
		for _, m := range produced {
			proj = append(proj, projectResponse(rule, m))
		}
		produced = proj
	}
	if view.Protocol == ProtoREST && view.Rule != nil && (len(produced) > 0 || isBodyRule(view)) {
		// a REST backend can only express the response_body part
		var proj []proto.Message
		for _, m := range produced {
			proj = append(proj, projectResponse(view.Rule, m))
		}
		if isBodyRule(view) {
			// a REST backend streams HttpBody data as one body: one message at the client
			ct, data, _ := httpBodyConcat(produced, view.Rule)
			m := newMessage(view.MI.Out)
			target := m.ProtoReflect()
			if view.Rule.ResponseBody != "" && view.Rule.ResponseBody != "*" {
				target = target.Mutable(target.Descriptor().Fields().ByName(protoName(view.Rule.ResponseBody))).Message()
			}
			setHTTPBody(target, ct, data)
			proj = []proto.Message{m}
			if sc.Client.Form == FormREST || !cv.OK {
				return res
			}
			// content type default: compare data only
			if len(cv.Msgs) == 1 && cv.Msgs[0] != nil {
				got := getHTTPBodyData(cv.Msgs[0], view.Rule)
				if string(got) != string(data) {
					res.violate("response_altered", "c01:"+featureSig(sc, view, "response"), "client received %d HttpBody bytes, REST handler produced %d", len(got), len(data))
				}
				return res
			}
		}
		produced = proj
	}
	gotResp := cv.Msgs
	if rr != nil {
		produced = normRESTPresence(rr.ResponseBody, produced)
		gotResp = normRESTPresence(rr.ResponseBody, gotResp)
	}
	if cv.OK {
		if len(cv.Msgs) != len(produced) {
			res.violate("response_count", "c01:"+featureSig(sc, view, "response"),
				"handler produced %d messages, client observed %d with outcome OK; client problems: %v", len(produced), len(cv.Msgs), cv.Problems)
		}
	}
	if ok, why := isPrefixSeq(gotResp, produced); !ok {
		if cv.OK || !strings.Contains(why, "undecodable") {
			res.violate("response_altered", "c01:"+featureSig(sc, view, "response"),
				"client observed a response sequence that is not what the handler produced: %s; client problems: %v", why, cv.Problems)
		}
	}
	return res
}

func isBodyRule(view *BackendView) bool {
	if view.Rule == nil || view.MI == nil {
		return false
	}
	_, _, isBody, err := expectedRESTResponseField(*view.Rule, newMessage(view.MI.Out))
	return err == nil && isBody
}

func sampleMsgs(ms []proto.Message) []string {
	var out []string
	for i, m := range ms {
		if i >= 2 {
			break
		}
		out = append(out, msgJSON(m))
	}
	return out
}

var _ protoreflect.Name


// limitAtFieldBoundary rewrites one message of the scenario into a highly compressible one made
// of many small repeated elements, sends it compressed, and sets the service's message limit to
// the offset of one of its field boundaries: the compressed form fits the limit, the plain form
// does not, and a transcoder that cut the plain form at the limit would deliver a decodable
// prefix. The only outcomes the property allows are a visible failure or exact delivery.
func limitAtFieldBoundary(t *rapid.T, sc *Scenario) {
	mi := lookupMethod(sc.Client.service(), sc.Client.Method)
	if mi == nil {
		return
	}
	onRequest := rapid.Bool().Draw(t, "boundary_on_request")
	typeName := mi.Out
	if onRequest {
		typeName = mi.In
	}
	if (onRequest && (len(sc.Client.Msgs) == 0 || sc.Client.Form == FormREST || sc.Client.Form == FormConnectGet)) || (!onRequest && len(sc.Backend.Msgs) == 0) {
		return
	}
	m := newMessage(typeName)
	var list protoreflect.FieldDescriptor
	fds := m.ProtoReflect().Descriptor().Fields()
	for i := 0; i < fds.Len(); i++ {
		if fd := fds.Get(i); fd.IsList() && fd.Kind() == protoreflect.StringKind {
			list = fd
			break
		}
	}
	if list == nil {
		return
	}
	n := rapid.IntRange(40, 400).Draw(t, "boundary_elems")
	l := m.ProtoReflect().Mutable(list).List()
	for i := 0; i < n; i++ {
		l.Append(protoreflect.ValueOfString("ab"))
	}
	enc := mustMarshal(m)
	per := len(enc) / n
	k := rapid.IntRange(n/4+1, n-1).Draw(t, "boundary_at")
	sc.Config.MaxMsg = uint32(k * per)
	if onRequest {
		sc.Client.Msgs[0] = enc
		sc.Client.Compression, sc.Client.Identity = CompGzip, false
		sc.Client.MsgRaw = make([]bool, len(sc.Client.Msgs))
	} else {
		sc.Backend.Msgs[0] = enc
		sc.Backend.Compress = true
		sc.Backend.MsgRaw = make([]bool, len(sc.Backend.Msgs))
		if !contains(sc.Client.Accept, CompGzip) {
			sc.Client.Accept = append(sc.Client.Accept, CompGzip)
		}
	}
	sc.Note += "limit_at_boundary;"
}


// quotedWrapperOnly: got equals want once every StringValue of want that is a JSON string literal
// is replaced by the string it denotes.
func quotedWrapperOnly(got, want []proto.Message) bool {
	if len(got) != len(want) || len(got) == 0 {
		return false
	}
	changed := false
	for i := range got {
		if got[i] == nil || want[i] == nil {
			return false
		}
		if canon(got[i]) == canon(want[i]) {
			continue
		}
		if canon(dequoteWrapperStrings(want[i])) != canon(got[i]) {
			return false
		}
		changed = true
	}
	return changed
}
