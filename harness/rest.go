package verifbench

// Reference implementation of google.api.http: template grammar, matching on the
// raw path, rendering a message to a REST request and binding a REST request to
// a message (DESIGN.md appendix A). Independent of package vanguard.

import (
	"encoding/base64"
	"encoding/json"
	"errors"
	"fmt"
	"math"
	"regexp"
	"sort"
	"strconv"
	"strings"
	"time"

	"google.golang.org/protobuf/encoding/protojson"
	"google.golang.org/protobuf/proto"
	"google.golang.org/protobuf/reflect/protoreflect"
)

// ---- template grammar -------------------------------------------------------

const (
	segLit = iota
	segStar
	segDStar
)

type tSeg struct {
	Kind int
	Lit  string // decoded literal
}

type tVar struct {
	Path       []string
	Start, End int // segment indexes [Start,End); End == -1: to the end (contains **)
}

type Template struct {
	Raw  string
	Segs []tSeg
	Verb string // decoded; "" if none
	Vars []tVar
}

func (t *Template) allLiteral() bool {
	for _, s := range t.Segs {
		if s.Kind != segLit {
			return false
		}
	}
	return true
}

func isUnreserved(c byte) bool {
	return c >= 'a' && c <= 'z' || c >= 'A' && c <= 'Z' || c >= '0' && c <= '9' || c == '-' || c == '_' || c == '.' || c == '~'
}

func isHex(c byte) bool {
	return c >= '0' && c <= '9' || c >= 'a' && c <= 'f' || c >= 'A' && c <= 'F'
}

// pctDecode decodes %XX escapes once. keepSlash leaves %2F / %2f as "%2F".
func pctDecode(s string, keepSlash bool) (string, error) {
	var sb strings.Builder
	for i := 0; i < len(s); i++ {
		if s[i] != '%' {
			sb.WriteByte(s[i])
			continue
		}
		if i+2 > len(s)-1 {
			return "", errors.New("truncated escape")
		}
		if !isHex(s[i+1]) || !isHex(s[i+2]) {
			return "", errors.New("bad escape")
		}
		v, _ := strconv.ParseUint(s[i+1:i+3], 16, 8)
		if keepSlash && v == '/' {
			sb.WriteString("%2F")
		} else {
			sb.WriteByte(byte(v))
		}
		i += 2
	}
	return sb.String(), nil
}

// pctEncode escapes everything outside the unreserved set.
func pctEncode(s string) string {
	var sb strings.Builder
	for i := 0; i < len(s); i++ {
		if isUnreserved(s[i]) {
			sb.WriteByte(s[i])
		} else {
			fmt.Fprintf(&sb, "%%%02X", s[i])
		}
	}
	return sb.String()
}

type tparser struct {
	s    string
	pos  int
	t    *Template
	seen map[string]bool
	dstr bool
}

func (p *tparser) peek() byte {
	if p.pos >= len(p.s) {
		return 0
	}
	return p.s[p.pos]
}

func (p *tparser) literal() (string, error) {
	start := p.pos
	for p.pos < len(p.s) && (isUnreserved(p.s[p.pos]) || p.s[p.pos] == '%') {
		p.pos++
	}
	if p.pos == start {
		return "", fmt.Errorf("expected literal at %d", p.pos)
	}
	return pctDecode(p.s[start:p.pos], false)
}

func (p *tparser) segments(inVar bool) error {
	for {
		if p.dstr {
			return errors.New("** must be last")
		}
		switch c := p.peek(); {
		case c == '*':
			p.pos++
			if p.peek() == '*' {
				p.pos++
				p.dstr = true
				p.t.Segs = append(p.t.Segs, tSeg{Kind: segDStar})
			} else {
				p.t.Segs = append(p.t.Segs, tSeg{Kind: segStar})
			}
		case c == '{':
			if inVar {
				return errors.New("nested variable")
			}
			p.pos++
			if err := p.variable(); err != nil {
				return err
			}
		default:
			lit, err := p.literal()
			if err != nil {
				return err
			}
			p.t.Segs = append(p.t.Segs, tSeg{Kind: segLit, Lit: lit})
		}
		if p.peek() != '/' {
			return nil
		}
		p.pos++
	}
}

var identRe = regexp.MustCompile(`^[A-Za-z_][A-Za-z0-9_]*$`)

func (p *tparser) variable() error {
	start := p.pos
	for p.pos < len(p.s) && p.s[p.pos] != '=' && p.s[p.pos] != '}' {
		p.pos++
	}
	fp := p.s[start:p.pos]
	parts := strings.Split(fp, ".")
	for _, x := range parts {
		if !identRe.MatchString(x) {
			return fmt.Errorf("bad field path %q", fp)
		}
	}
	if p.seen[fp] {
		return fmt.Errorf("duplicate variable %q", fp)
	}
	p.seen[fp] = true
	v := tVar{Path: parts, Start: len(p.t.Segs)}
	switch p.peek() {
	case '}':
		p.pos++
		p.t.Segs = append(p.t.Segs, tSeg{Kind: segStar})
	case '=':
		p.pos++
		if err := p.segments(true); err != nil {
			return err
		}
		if p.peek() != '}' {
			return errors.New("expected }")
		}
		p.pos++
	default:
		return errors.New("unterminated variable")
	}
	v.End = len(p.t.Segs)
	if p.dstr {
		v.End = -1
	}
	p.t.Vars = append(p.t.Vars, v)
	return nil
}

// parseTemplate is the reference parser for the http.proto template grammar.
func parseTemplate(s string) (*Template, error) {
	p := &tparser{s: s, t: &Template{Raw: s}, seen: map[string]bool{}}
	if p.peek() != '/' {
		return nil, errors.New("template must start with /")
	}
	p.pos++
	if err := p.segments(false); err != nil {
		return nil, err
	}
	if p.peek() == ':' {
		p.pos++
		v, err := p.literal()
		if err != nil {
			return nil, err
		}
		p.t.Verb = v
	}
	if p.pos != len(p.s) {
		return nil, fmt.Errorf("unexpected %q at %d", p.s[p.pos], p.pos)
	}
	return p.t, nil
}

// ---- matching ---------------------------------------------------------------

const (
	mNo = iota
	mMaybe
	mYes
)

func litMatch(raw, lit string) int {
	dec, err := pctDecode(raw, false)
	if err != nil || dec != lit {
		return mNo
	}
	if raw == pctEncode(lit) {
		return mYes
	}
	return mMaybe
}

// splitRawPath splits the raw (escaped) path into segments and verb. ok=false
// for paths outside the strict domain (no leading slash).
func splitRawPath(raw string) (segs []string, verb string, hasVerb bool, ok bool) {
	if !strings.HasPrefix(raw, "/") {
		return nil, "", false, false
	}
	segs = strings.Split(raw[1:], "/")
	last := segs[len(segs)-1]
	if i := strings.IndexByte(last, ':'); i >= 0 {
		segs[len(segs)-1] = last[:i]
		verb = last[i+1:]
		hasVerb = true
	}
	return segs, verb, hasVerb, true
}

type matchResult struct {
	Level    int               // mNo, mMaybe, mYes
	Captures map[string]string // field path -> value
}

// matchTemplate matches a raw path against a template.
func matchTemplate(t *Template, raw string) matchResult {
	segs, verb, hasVerb, ok := splitRawPath(raw)
	if !ok {
		return matchResult{}
	}
	level := mYes
	// verb
	if t.Verb == "" {
		if hasVerb {
			return matchResult{}
		}
	} else {
		if !hasVerb {
			return matchResult{}
		}
		switch litMatch(verb, t.Verb) {
		case mNo:
			return matchResult{}
		case mMaybe:
			level = mMaybe
		}
	}
	n := len(t.Segs)
	hasD := n > 0 && t.Segs[n-1].Kind == segDStar
	if hasD {
		if len(segs) < n-1 {
			return matchResult{}
		}
		// "**" matching zero segments is unspecified by http.proto
		if len(segs) == n-1 {
			level = mMaybe
		}
	} else if len(segs) != n {
		return matchResult{}
	}
	for i, ts := range t.Segs {
		switch ts.Kind {
		case segLit:
			switch litMatch(segs[i], ts.Lit) {
			case mNo:
				return matchResult{}
			case mMaybe:
				level = mMaybe
			}
		case segStar:
			if segs[i] == "" {
				level = mMaybe
			}
			if _, err := pctDecode(segs[i], false); err != nil {
				return matchResult{}
			}
		case segDStar:
			for _, s := range segs[i:] {
				if _, err := pctDecode(s, false); err != nil {
					return matchResult{}
				}
			}
			if len(segs) == n && segs[i] == "" {
				level = mMaybe
			}
		}
	}
	caps := map[string]string{}
	for _, v := range t.Vars {
		end := v.End
		if end == -1 {
			end = len(segs)
		}
		start := v.Start
		if start > len(segs) {
			start = len(segs)
		}
		parts := segs[start:end]
		multi := v.End == -1 || len(parts) > 1
		val, err := pctDecode(strings.Join(parts, "/"), multi)
		if err != nil {
			return matchResult{}
		}
		caps[strings.Join(v.Path, ".")] = val
	}
	return matchResult{Level: level, Captures: caps}
}

// ---- field paths and parameter text forms -----------------------------------

func resolveFieldPath(md protoreflect.MessageDescriptor, path []string, allowJSON bool) ([]protoreflect.FieldDescriptor, error) {
	var out []protoreflect.FieldDescriptor
	for i, p := range path {
		if md == nil {
			return nil, fmt.Errorf("path element %q has no parent message", p)
		}
		var fd protoreflect.FieldDescriptor
		if allowJSON {
			fd = md.Fields().ByJSONName(p)
		}
		if fd == nil {
			fd = md.Fields().ByName(protoreflect.Name(p))
		}
		if fd == nil {
			return nil, fmt.Errorf("no field %q in %s", p, md.FullName())
		}
		out = append(out, fd)
		if i < len(path)-1 {
			if fd.Cardinality() == protoreflect.Repeated || fd.Message() == nil {
				return nil, fmt.Errorf("field %q cannot be traversed", p)
			}
			md = fd.Message()
		}
	}
	return out, nil
}

var scalarWKT = map[string]bool{
	"google.protobuf.BoolValue": true, "google.protobuf.BytesValue": true, "google.protobuf.DoubleValue": true,
	"google.protobuf.Duration": true, "google.protobuf.FieldMask": true, "google.protobuf.FloatValue": true,
	"google.protobuf.Int32Value": true, "google.protobuf.Int64Value": true, "google.protobuf.StringValue": true,
	"google.protobuf.Timestamp": true, "google.protobuf.UInt32Value": true, "google.protobuf.UInt64Value": true,
}

// isParamLeaf: scalar, enum or a well-known type with a scalar JSON form.
func isParamLeaf(fd protoreflect.FieldDescriptor) bool {
	if fd.IsMap() {
		return false
	}
	switch fd.Kind() {
	case protoreflect.GroupKind:
		return false
	case protoreflect.MessageKind:
		return scalarWKT[string(fd.Message().FullName())]
	}
	return true
}

type ParamStyle struct {
	BytesURLSafe bool `json:"bytes_urlsafe,omitempty"`
	BytesNoPad   bool `json:"bytes_nopad,omitempty"`
	EnumNumber   bool `json:"enum_number,omitempty"`
	ProtoNames   bool `json:"proto_names,omitempty"`
}

func fmtFloat(v float64, bits int) string {
	switch {
	case math.IsNaN(v):
		return "NaN"
	case math.IsInf(v, 1):
		return "Infinity"
	case math.IsInf(v, -1):
		return "-Infinity"
	}
	return strconv.FormatFloat(v, 'g', -1, bits)
}

// paramText renders a single (non-list) value in its URL text form.
func paramText(fd protoreflect.FieldDescriptor, v protoreflect.Value, st ParamStyle) (string, error) {
	switch fd.Kind() {
	case protoreflect.BoolKind:
		return strconv.FormatBool(v.Bool()), nil
	case protoreflect.Int32Kind, protoreflect.Sint32Kind, protoreflect.Sfixed32Kind,
		protoreflect.Int64Kind, protoreflect.Sint64Kind, protoreflect.Sfixed64Kind:
		return strconv.FormatInt(v.Int(), 10), nil
	case protoreflect.Uint32Kind, protoreflect.Fixed32Kind, protoreflect.Uint64Kind, protoreflect.Fixed64Kind:
		return strconv.FormatUint(v.Uint(), 10), nil
	case protoreflect.FloatKind:
		return fmtFloat(v.Float(), 32), nil
	case protoreflect.DoubleKind:
		return fmtFloat(v.Float(), 64), nil
	case protoreflect.StringKind:
		return v.String(), nil
	case protoreflect.BytesKind:
		enc := base64.StdEncoding
		if st.BytesURLSafe {
			enc = base64.URLEncoding
		}
		if st.BytesNoPad {
			enc = enc.WithPadding(base64.NoPadding)
		}
		return enc.EncodeToString(v.Bytes()), nil
	case protoreflect.EnumKind:
		ev := fd.Enum().Values().ByNumber(v.Enum())
		if ev == nil || st.EnumNumber {
			return strconv.Itoa(int(v.Enum())), nil
		}
		return string(ev.Name()), nil
	case protoreflect.MessageKind:
		name := string(fd.Message().FullName())
		if !scalarWKT[name] {
			return "", fmt.Errorf("%s has no text form", name)
		}
		m := v.Message()
		switch name {
		case "google.protobuf.Timestamp", "google.protobuf.Duration", "google.protobuf.FieldMask":
			b, err := protojson.Marshal(m.Interface())
			if err != nil {
				return "", err
			}
			var s string
			if err := json.Unmarshal(b, &s); err != nil {
				return "", err
			}
			return s, nil
		default: // wrappers
			vf := m.Descriptor().Fields().ByName("value")
			return paramText(vf, m.Get(vf), st)
		}
	}
	return "", fmt.Errorf("kind %v has no text form", fd.Kind())
}

const (
	fitNo = iota
	fitMaybe
	fitYes
)

var (
	canonIntRe   = regexp.MustCompile(`^-?(0|[1-9][0-9]*)$`)
	canonFloatRe = regexp.MustCompile(`^-?(0|[1-9][0-9]*)(\.[0-9]+)?([eE][+-]?[0-9]+)?$`)
	numberishRe  = regexp.MustCompile(`^["']?[+-]?[0-9.]+([eE][+-]?[0-9]+)?["']?$`)
	durationRe   = regexp.MustCompile(`^-?[0-9]+(\.[0-9]{1,9})?s$`)
)

// parseParam is the three-valued reference for "does this text fit the field".
func parseParam(parent protoreflect.Message, fd protoreflect.FieldDescriptor, s string) (protoreflect.Value, int) {
	none := protoreflect.Value{}
	intFit := func(bits int, signed bool) (protoreflect.Value, int) {
		if canonIntRe.MatchString(s) {
			if signed {
				n, err := strconv.ParseInt(s, 10, bits)
				if err != nil {
					return none, fitNo
				}
				if bits == 32 {
					return protoreflect.ValueOfInt32(int32(n)), fitYes
				}
				return protoreflect.ValueOfInt64(n), fitYes
			}
			if strings.HasPrefix(s, "-") {
				if s == "-0" {
					return none, fitMaybe
				}
				return none, fitNo
			}
			n, err := strconv.ParseUint(s, 10, bits)
			if err != nil {
				return none, fitNo
			}
			if bits == 32 {
				return protoreflect.ValueOfUint32(uint32(n)), fitYes
			}
			return protoreflect.ValueOfUint64(n), fitYes
		}
		if numberishRe.MatchString(s) {
			// "1.0", "+1", "01", "1e2", quoted: gray zone; a non-zero fraction is a clear misfit
			t := strings.Trim(s, `"'`)
			if f, err := strconv.ParseFloat(t, 64); err == nil && f != math.Trunc(f) {
				return none, fitNo
			}
			return none, fitMaybe
		}
		return none, fitNo
	}
	floatFit := func(bits int) (protoreflect.Value, int) {
		mk := func(f float64) protoreflect.Value {
			if bits == 32 {
				return protoreflect.ValueOfFloat32(float32(f))
			}
			return protoreflect.ValueOfFloat64(f)
		}
		switch s {
		case "NaN":
			return mk(math.NaN()), fitYes
		case "Infinity":
			return mk(math.Inf(1)), fitYes
		case "-Infinity":
			return mk(math.Inf(-1)), fitYes
		}
		if canonFloatRe.MatchString(s) {
			f, err := strconv.ParseFloat(s, bits)
			if err != nil {
				return none, fitMaybe // out of range for the width
			}
			return mk(f), fitYes
		}
		if numberishRe.MatchString(s) || strings.EqualFold(s, "nan") || strings.EqualFold(s, "inf") || strings.EqualFold(s, "+inf") || strings.EqualFold(s, "-inf") || strings.EqualFold(s, "+infinity") || strings.EqualFold(s, "infinity") || strings.EqualFold(s, "-infinity") {
			return none, fitMaybe
		}
		if _, err := strconv.ParseFloat(s, 64); err == nil {
			return none, fitMaybe // hex floats, underscores...
		}
		return none, fitNo
	}
	switch fd.Kind() {
	case protoreflect.BoolKind:
		switch s {
		case "true":
			return protoreflect.ValueOfBool(true), fitYes
		case "false":
			return protoreflect.ValueOfBool(false), fitYes
		case "True", "False", "TRUE", "FALSE", "1", "0", "t", "f", "T", "F", `"true"`, `"false"`:
			return none, fitMaybe
		}
		return none, fitNo
	case protoreflect.Int32Kind, protoreflect.Sint32Kind, protoreflect.Sfixed32Kind:
		return intFit(32, true)
	case protoreflect.Int64Kind, protoreflect.Sint64Kind, protoreflect.Sfixed64Kind:
		return intFit(64, true)
	case protoreflect.Uint32Kind, protoreflect.Fixed32Kind:
		return intFit(32, false)
	case protoreflect.Uint64Kind, protoreflect.Fixed64Kind:
		return intFit(64, false)
	case protoreflect.FloatKind:
		return floatFit(32)
	case protoreflect.DoubleKind:
		return floatFit(64)
	case protoreflect.StringKind:
		return protoreflect.ValueOfString(s), fitYes
	case protoreflect.BytesKind:
		for _, enc := range []*base64.Encoding{base64.StdEncoding, base64.RawStdEncoding, base64.URLEncoding, base64.RawURLEncoding} {
			if b, err := enc.Strict().DecodeString(s); err == nil {
				return protoreflect.ValueOfBytes(b), fitYes
			}
		}
		for i := 0; i < len(s); i++ {
			c := s[i]
			if !(c >= 'a' && c <= 'z' || c >= 'A' && c <= 'Z' || c >= '0' && c <= '9' || c == '+' || c == '/' || c == '-' || c == '_' || c == '=') {
				return none, fitNo
			}
		}
		return none, fitMaybe
	case protoreflect.EnumKind:
		if ev := fd.Enum().Values().ByName(protoreflect.Name(s)); ev != nil {
			return protoreflect.ValueOfEnum(ev.Number()), fitYes
		}
		if canonIntRe.MatchString(s) {
			n, err := strconv.ParseInt(s, 10, 32)
			if err != nil {
				return none, fitNo
			}
			return protoreflect.ValueOfEnum(protoreflect.EnumNumber(n)), fitYes
		}
		if numberishRe.MatchString(s) || s == "null" {
			return none, fitMaybe
		}
		return none, fitNo
	case protoreflect.MessageKind:
		name := string(fd.Message().FullName())
		if !scalarWKT[name] {
			return none, fitMaybe
		}
		nv := parent.NewField(fd)
		if fd.IsList() {
			nv = nv.List().NewElement()
		}
		m := nv.Message()
		switch name {
		case "google.protobuf.Timestamp":
			t, err := time.Parse(time.RFC3339Nano, s)
			if err != nil {
				if strings.ContainsAny(s, "0123456789") && strings.ContainsAny(s, "T-:") {
					return none, fitMaybe
				}
				return none, fitNo
			}
			if t.Year() < 1 || t.Year() > 9999 {
				return none, fitMaybe
			}
			if !strings.HasSuffix(s, "Z") && !regexp.MustCompile(`[+-][0-9]{2}:[0-9]{2}$`).MatchString(s) {
				return none, fitMaybe
			}
			if !strings.Contains(s, "T") {
				return none, fitMaybe
			}
			m.Set(m.Descriptor().Fields().ByName("seconds"), protoreflect.ValueOfInt64(t.Unix()))
			m.Set(m.Descriptor().Fields().ByName("nanos"), protoreflect.ValueOfInt32(int32(t.Nanosecond())))
			return nv, fitYes
		case "google.protobuf.Duration":
			if !durationRe.MatchString(s) {
				if strings.ContainsAny(s, "0123456789") {
					return none, fitMaybe
				}
				return none, fitNo
			}
			neg := strings.HasPrefix(s, "-")
			body := strings.TrimSuffix(strings.TrimPrefix(s, "-"), "s")
			ip, fp, _ := strings.Cut(body, ".")
			secs, err := strconv.ParseInt(ip, 10, 64)
			if err != nil || secs > 315576000000 {
				return none, fitMaybe
			}
			for len(fp) < 9 {
				fp += "0"
			}
			nanos, _ := strconv.ParseInt(fp, 10, 32)
			if neg {
				secs, nanos = -secs, -nanos
			}
			m.Set(m.Descriptor().Fields().ByName("seconds"), protoreflect.ValueOfInt64(secs))
			m.Set(m.Descriptor().Fields().ByName("nanos"), protoreflect.ValueOfInt32(int32(nanos)))
			return nv, fitYes
		case "google.protobuf.FieldMask":
			q, _ := json.Marshal(s)
			if err := protojson.Unmarshal(q, m.Interface()); err != nil {
				return none, fitMaybe
			}
			return nv, fitYes
		default:
			vf := m.Descriptor().Fields().ByName("value")
			v, fit := parseParam(m, vf, s)
			if fit != fitYes {
				if s == "null" {
					return none, fitMaybe
				}
				return none, fit
			}
			m.Set(vf, v)
			return nv, fitYes
		}
	}
	return none, fitMaybe
}

// setParamRef applies one text parameter to msg along fds. Returns the fit.
func setParamRef(msg protoreflect.Message, fds []protoreflect.FieldDescriptor, text string) int {
	cur := msg
	for _, fd := range fds[:len(fds)-1] {
		cur = cur.Mutable(fd).Message()
	}
	leaf := fds[len(fds)-1]
	if leaf.IsMap() || !isParamLeaf(leaf) {
		return fitMaybe
	}
	v, fit := parseParam(cur, leaf, text)
	if fit != fitYes {
		return fit
	}
	if leaf.IsList() {
		cur.Mutable(leaf).List().Append(v)
	} else {
		cur.Set(leaf, v)
	}
	return fitYes
}

// ---- query strings ----------------------------------------------------------

// queryEscape: everything outside unreserved is percent-escaped (never '+').
func queryEscape(s string) string { return pctEncode(s) }

// parseQueryOrdered parses a raw query preserving order. '+' means space.
func parseQueryOrdered(raw string) ([]KV, error) {
	var out []KV
	for _, part := range strings.Split(raw, "&") {
		if part == "" {
			continue
		}
		k, v, _ := strings.Cut(part, "=")
		dk, err := pctDecode(strings.ReplaceAll(k, "+", " "), false)
		if err != nil {
			return nil, err
		}
		dv, err := pctDecode(strings.ReplaceAll(v, "+", " "), false)
		if err != nil {
			return nil, err
		}
		out = append(out, KV{dk, dv})
	}
	return out, nil
}

// ---- rendering a message as a REST request ----------------------------------

type RESTRequest struct {
	Method   string
	RawPath  string // escaped path
	RawQuery string
	Body     []byte
	HasBody  bool
	BodyCT   string // content type for HttpBody bodies, else application/json
}

type fieldKey string

var errNotExpressible = errors.New("message not expressible under this rule")

func isHTTPBody(md protoreflect.MessageDescriptor) bool {
	return md != nil && md.FullName() == "google.api.HttpBody"
}

// renderREST is the reference inverse of binding: message -> REST request.
// style decides naming/encodings. Returns errNotExpressible when some populated
// field can be carried neither by path, body nor query.
func renderREST(rule RuleSpec, m proto.Message, ps ParamStyle, js JSONStyle) (*RESTRequest, error) {
	t, err := parseTemplate(rule.Template)
	if err != nil {
		return nil, err
	}
	msg := m.ProtoReflect()
	md := msg.Descriptor()
	req := &RESTRequest{Method: rule.Method}
	used := map[string]bool{} // dotted proto-name paths consumed by path variables
	// path
	segs := make([]string, len(t.Segs))
	filled := make([]bool, len(t.Segs))
	for i, s := range t.Segs {
		if s.Kind == segLit {
			segs[i] = pctEncode(s.Lit)
			filled[i] = true
		}
	}
	var tail []string
	for _, v := range t.Vars {
		fds, err := resolveFieldPath(md, v.Path, false)
		if err != nil {
			return nil, err
		}
		leaf := fds[len(fds)-1]
		if leaf.IsList() || leaf.IsMap() || !isParamLeaf(leaf) {
			return nil, errNotExpressible
		}
		cur := msg
		for _, fd := range fds[:len(fds)-1] {
			cur = cur.Get(fd).Message()
		}
		text, err := paramText(leaf, cur.Get(leaf), ps)
		if err != nil {
			return nil, errNotExpressible
		}
		used[strings.Join(v.Path, ".")] = true
		end := v.End
		multi := end == -1 || end-v.Start > 1
		if !multi {
			if text == "" {
				return nil, errNotExpressible // empty segment: gray zone
			}
			segs[v.Start] = pctEncode(text)
			continue
		}
		parts := strings.Split(text, "/")
		fixed := len(t.Segs) - v.Start
		if end != -1 {
			fixed = end - v.Start
			if len(parts) != fixed {
				return nil, errNotExpressible
			}
		} else if len(parts) < fixed-1 {
			return nil, errNotExpressible
		}
		for i, p := range parts {
			idx := v.Start + i
			// a literal "%2F" inside a multi-segment value cannot be told apart
			// from an escaped slash; only values without it are expressible
			if strings.Contains(strings.ToUpper(p), "%2F") {
				return nil, errNotExpressible
			}
			enc := pctEncode(p)
			if idx < len(t.Segs) && t.Segs[idx].Kind != segDStar {
				if t.Segs[idx].Kind == segLit {
					if p != t.Segs[idx].Lit {
						return nil, errNotExpressible
					}
					continue
				}
				if p == "" {
					return nil, errNotExpressible
				}
				segs[idx] = enc
			} else {
				if idx == len(t.Segs)-1 {
					segs[idx] = enc
					if p == "" && len(parts)-1 == i {
						return nil, errNotExpressible
					}
				} else {
					if p == "" && i == len(parts)-1 {
						return nil, errNotExpressible
					}
					tail = append(tail, enc)
				}
			}
		}
		if end == -1 && len(parts) == fixed-1 {
			return nil, errNotExpressible // ** matching nothing: gray zone
		}
	}
	for i, s := range t.Segs {
		if s.Kind != segLit && segs[i] == "" && !filled[i] {
			// un-bound wildcard: any non-empty segment will do
			segs[i] = "x"
		}
	}
	req.RawPath = "/" + strings.Join(append(segs, tail...), "/")
	if t.Verb != "" {
		req.RawPath += ":" + pctEncode(t.Verb)
	}
	// body
	var bodyField protoreflect.FieldDescriptor
	switch rule.Body {
	case "":
	case "*":
		req.HasBody = true
		req.BodyCT = "application/json"
		if isHTTPBody(md) {
			req.BodyCT = msg.Get(md.Fields().ByName("content_type")).String()
			req.Body = msg.Get(md.Fields().ByName("data")).Bytes()
			return req, nil
		}
		b, err := encodeMsg(CodecJSON, js, m)
		if err != nil {
			return nil, err
		}
		req.Body = b
		return req, nil
	default:
		fds, err := resolveFieldPath(md, strings.Split(rule.Body, "."), false)
		if err != nil || len(fds) != 1 {
			return nil, fmt.Errorf("bad body selector %q", rule.Body)
		}
		bodyField = fds[0]
		req.HasBody = true
		req.BodyCT = "application/json"
		if bodyField.Message() != nil && !bodyField.IsList() && !bodyField.IsMap() && isHTTPBody(bodyField.Message()) {
			hb := msg.Get(bodyField).Message()
			req.BodyCT = hb.Get(hb.Descriptor().Fields().ByName("content_type")).String()
			req.Body = hb.Get(hb.Descriptor().Fields().ByName("data")).Bytes()
			if extra := hb.Get(hb.Descriptor().Fields().ByName("extensions")).List().Len(); extra > 0 {
				return nil, errNotExpressible
			}
		} else if bodyField.Message() != nil && !bodyField.IsList() && !bodyField.IsMap() {
			if msg.Has(bodyField) {
				b, err := encodeMsg(CodecJSON, js, msg.Get(bodyField).Message().Interface())
				if err != nil {
					return nil, err
				}
				req.Body = b
			} else {
				req.Body = nil // absent sub-message: empty body
			}
		} else {
			b, err := fieldJSON(m, bodyField, js)
			if err != nil {
				return nil, err
			}
			req.Body = b
		}
	}
	// query: everything else
	var q []string
	var walk func(cur protoreflect.Message, prefixProto, prefixOut string) error
	walk = func(cur protoreflect.Message, prefixProto, prefixOut string) error {
		var rerr error
		fdsList := []protoreflect.FieldDescriptor{}
		cur.Range(func(fd protoreflect.FieldDescriptor, _ protoreflect.Value) bool {
			fdsList = append(fdsList, fd)
			return true
		})
		sort.Slice(fdsList, func(i, j int) bool { return fdsList[i].Number() < fdsList[j].Number() })
		for _, fd := range fdsList {
			v := cur.Get(fd)
			pp := prefixProto + string(fd.Name())
			name := fd.JSONName()
			if ps.ProtoNames {
				name = string(fd.Name())
			}
			po := prefixOut + name
			if used[pp] {
				continue
			}
			if prefixProto == "" && bodyField != nil && fd.Number() == bodyField.Number() {
				continue
			}
			switch {
			case fd.IsMap():
				return errNotExpressible
			case isParamLeaf(fd) && fd.IsList():
				for i := 0; i < v.List().Len(); i++ {
					txt, err := paramText(fd, v.List().Get(i), ps)
					if err != nil {
						return errNotExpressible
					}
					q = append(q, queryEscape(po)+"="+queryEscape(txt))
				}
			case isParamLeaf(fd):
				txt, err := paramText(fd, v, ps)
				if err != nil {
					return errNotExpressible
				}
				q = append(q, queryEscape(po)+"="+queryEscape(txt))
			case fd.Kind() == protoreflect.MessageKind && !fd.IsList():
				// a path variable below this message makes it present anyway
				if v.Message().IsValid() {
					before := len(q)
					if rerr = walk(v.Message(), pp+".", po+"."); rerr != nil {
						return rerr
					}
					if len(q) == before && !hasUsedBelow(used, pp+".") {
						return errNotExpressible // present-but-empty sub-message cannot be carried
					}
				}
			default:
				return errNotExpressible
			}
		}
		return nil
	}
	if err := walk(msg, "", ""); err != nil {
		return nil, err
	}
	req.RawQuery = strings.Join(q, "&")
	return req, nil
}

func hasUsedBelow(used map[string]bool, prefix string) bool {
	for k := range used {
		if strings.HasPrefix(k, prefix) {
			return true
		}
	}
	return false
}

// fieldJSON renders one field of m as a JSON value (for body: "field" with a
// non-message field).
func fieldJSON(m proto.Message, fd protoreflect.FieldDescriptor, js JSONStyle) ([]byte, error) {
	js.EmitUnpopulated = true
	b, err := encodeMsg(CodecJSON, js, m)
	if err != nil {
		return nil, err
	}
	var obj map[string]json.RawMessage
	if err := json.Unmarshal(b, &obj); err != nil {
		return nil, err
	}
	for _, k := range []string{fd.JSONName(), string(fd.Name())} {
		if v, ok := obj[k]; ok {
			return v, nil
		}
	}
	return nil, fmt.Errorf("field %s not in JSON", fd.Name())
}

// ---- binding a REST request to a message -------------------------------------

type bindResult struct {
	Msg       proto.Message
	Fit       int    // fitYes: Msg is what the backend must see; fitNo: must be rejected as invalid_argument; fitMaybe: unspecified
	Why       string // for fitNo / fitMaybe
	BodyError bool   // the body itself is undecodable (only "fails visibly" is required)
}

// bindREST is the reference binder: body, then path variables, then query.
func bindREST(rule RuleSpec, inType string, caps map[string]string, rawQuery string, body []byte, contentType string, discardUnknownQuery bool) bindResult {
	m := newMessage(inType)
	msg := m.ProtoReflect()
	md := msg.Descriptor()
	res := bindResult{Msg: m, Fit: fitYes}
	switch rule.Body {
	case "":
		if len(body) > 0 {
			return bindResult{Fit: fitMaybe, Why: "body sent to a rule without body"}
		}
	case "*":
		if isHTTPBody(md) {
			msg.Set(md.Fields().ByName("content_type"), protoreflect.ValueOfString(contentType))
			msg.Set(md.Fields().ByName("data"), protoreflect.ValueOfBytes(body))
		} else if len(body) > 0 {
			if err := (protojson.UnmarshalOptions{DiscardUnknown: true}).Unmarshal(body, m); err != nil {
				return bindResult{Fit: fitMaybe, BodyError: true, Why: "body does not decode: " + err.Error()}
			}
		}
	default:
		fds, err := resolveFieldPath(md, strings.Split(rule.Body, "."), false)
		if err != nil || len(fds) != 1 {
			return bindResult{Fit: fitMaybe, Why: "bad body selector"}
		}
		fd := fds[0]
		switch {
		case fd.Message() != nil && !fd.IsList() && !fd.IsMap() && isHTTPBody(fd.Message()):
			hb := msg.Mutable(fd).Message()
			hb.Set(hb.Descriptor().Fields().ByName("content_type"), protoreflect.ValueOfString(contentType))
			hb.Set(hb.Descriptor().Fields().ByName("data"), protoreflect.ValueOfBytes(body))
		case len(body) == 0:
		case fd.Message() != nil && !fd.IsList() && !fd.IsMap():
			sub := msg.Mutable(fd).Message()
			if err := (protojson.UnmarshalOptions{DiscardUnknown: true}).Unmarshal(body, sub.Interface()); err != nil {
				return bindResult{Fit: fitMaybe, BodyError: true, Why: "body does not decode: " + err.Error()}
			}
		default:
			k, _ := json.Marshal(fd.JSONName())
			wrapped := append(append(append([]byte("{"), k...), ':'), body...)
			wrapped = append(wrapped, '}')
			if err := (protojson.UnmarshalOptions{DiscardUnknown: true}).Unmarshal(wrapped, m); err != nil {
				return bindResult{Fit: fitMaybe, BodyError: true, Why: "body does not decode: " + err.Error()}
			}
		}
	}
	// path variables (in template order)
	t, err := parseTemplate(rule.Template)
	if err != nil {
		return bindResult{Fit: fitMaybe, Why: "bad template"}
	}
	for _, v := range t.Vars {
		key := strings.Join(v.Path, ".")
		val, ok := caps[key]
		if !ok {
			continue
		}
		fds, err := resolveFieldPath(md, v.Path, false)
		if err != nil {
			return bindResult{Fit: fitMaybe, Why: "bad variable"}
		}
		if fds[len(fds)-1].IsList() {
			return bindResult{Fit: fitMaybe, Why: "repeated variable"}
		}
		switch setParamRef(msg, fds, val) {
		case fitNo:
			return bindResult{Fit: fitNo, Why: fmt.Sprintf("path variable %s=%q does not fit", key, val)}
		case fitMaybe:
			res.Fit = fitMaybe
			res.Why = fmt.Sprintf("path variable %s=%q is in the gray zone", key, val)
		}
	}
	// query
	kvs, err := parseQueryOrdered(rawQuery)
	if err != nil {
		return bindResult{Fit: fitMaybe, Why: "malformed query"}
	}
	seenFields := map[string]string{}
	for _, kv := range kvs {
		fds, err := resolveFieldPath(md, strings.Split(kv.K, "."), true)
		if err != nil {
			if discardUnknownQuery {
				// only clearly unknown *names* may be discarded; traversal errors are gray
				if strings.HasPrefix(err.Error(), "no field") {
					continue
				}
			}
			return bindResult{Fit: fitMaybe, Why: "unknown query parameter " + kv.K}
		}
		// aliasing of one field by two spellings depends on map order in any implementation
		full := ""
		for _, fd := range fds {
			full += "." + string(fd.Name())
		}
		if prev, ok := seenFields[full]; ok && prev != kv.K {
			return bindResult{Fit: fitMaybe, Why: "aliased query parameter"}
		}
		seenFields[full] = kv.K
		switch setParamRef(msg, fds, kv.V) {
		case fitNo:
			return bindResult{Fit: fitNo, Why: fmt.Sprintf("query parameter %s=%q does not fit", kv.K, kv.V)}
		case fitMaybe:
			res.Fit = fitMaybe
			res.Why = fmt.Sprintf("query parameter %s=%q is in the gray zone", kv.K, kv.V)
		}
	}
	if res.Fit == fitYes {
		// two arms of one oneof set from different sources: order-dependent
		res.Msg = m
	}
	return res
}

// ---- REST responses ---------------------------------------------------------

// expectedRESTResponse renders what a REST client must receive for out.
func expectedRESTResponseField(rule RuleSpec, out proto.Message) (sub proto.Message, fd protoreflect.FieldDescriptor, httpBody bool, err error) {
	msg := out.ProtoReflect()
	if rule.ResponseBody == "" || rule.ResponseBody == "*" {
		return out, nil, isHTTPBody(msg.Descriptor()), nil
	}
	fds, err := resolveFieldPath(msg.Descriptor(), strings.Split(rule.ResponseBody, "."), false)
	if err != nil || len(fds) != 1 {
		return nil, nil, false, fmt.Errorf("bad response_body %q", rule.ResponseBody)
	}
	f := fds[0]
	if f.Message() != nil && !f.IsList() && !f.IsMap() {
		return msg.Get(f).Message().Interface(), nil, isHTTPBody(f.Message()), nil
	}
	return out, f, false, nil
}
