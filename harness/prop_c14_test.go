package verifbench

import (
	"encoding/binary"
	"encoding/json"
	"fmt"
	"io"
	"net/http"
	"os"
	"regexp"
	"runtime"
	"runtime/debug"
	"sort"
	"strings"

	"google.golang.org/protobuf/reflect/protoreflect"
	"sync"
	"sync/atomic"
	"testing"
	"time"

	"connectrpc.com/vanguard"
	"pgregory.net/rapid"
)

// C14 - concurrent RPCs are isolated from one another and race-free.

const ruleC14 = "rapid draws batches of 2..24 scenarios (C01/C03/C09 generators: mixed client forms, codecs, compressions, distinct payloads, failing and faulty requests) that run concurrently on ONE Transcoder, in a generated start order with generated GOMAXPROCS, plus full-duplex streams whose request body is a pipe fed by a client goroutine while the handler reads and writes from two different goroutines, optionally with an invalid envelope or a cut injected on the request side while the response side is busy. The binary is built with -race; the instrumented poisoning buffer pool (tag verif) is active. Half of the batches start with a sequential prelude of requests that fail inside the transcoder (corrupt gzip headers, or messages that inflate past the size limit from a few hundred bytes - then mostly with GOMAXPROCS=1) before the others run concurrently, some with every RPC inflating; compressor and decompressor objects are bookkeeping wrappers registered through WithCompression (in use from Reset to Close). Solo reference runs use the ordinary pool, the concurrent phase the poisoning one. Oracle: (0) no (de)compressor object is Reset while in use; (1) every RPC's canonical outcome equals its solo run on a fresh Transcoder; (2) the race detector log gains no report whose stacks contain frames of package vanguard (reports are parsed into call-site pairs and matched against known findings); (3) pool bookkeeping: no double release, no hand-out of a live buffer, no write after release. Non-trivial = at least two overlapping RPCs that used pooled buffers, or a duplex stream with a fault on one side while the other side moved data; distinct by hash(batch)."

type duplexSpec struct {
	Form         string `json:"form"`   // connect_stream | grpc | grpcweb
	Target       string `json:"target"` // backend protocol
	Codec        string `json:"codec"`  // client codec; backend accepts only BackendCodec
	BackendCodec string `json:"backend_codec"`
	NReq         int    `json:"n_req"`
	NResp        int    `json:"n_resp"`
	FaultAt      int    `json:"fault_at"`   // -1 none; index of the request frame to corrupt
	FaultKind    string `json:"fault_kind"` // flag | cut
	PayloadLen   int    `json:"payload_len"`
	Yield        int    `json:"yield"`       // Gosched calls between client frames
	CloseEarly   bool   `json:"close_early"` // the writer goroutine closes the request body while the reader goroutine may still be in Read (as proxies do)
}

type concCase struct {
	Config  Config       `json:"config"`
	Batch   []Scenario   `json:"batch,omitempty"`
	Duplex  []duplexSpec `json:"duplex,omitempty"`
	Procs   int          `json:"procs"`
	Prelude int          `json:"prelude,omitempty"` // the first Prelude RPCs (in Order) run sequentially before the others start
	Order   []int        `json:"order,omitempty"`
}

func init() {
	registerProp(&propDef{ID: "C14", Rule: ruleC14, Replay: func(raw json.RawMessage) (*CheckResult, error) {
		var c concCase
		if err := json.Unmarshal(raw, &c); err != nil {
			return nil, err
		}
		// schedule-dependent: a replay is repeated
		var last *CheckResult
		for i := 0; i < 20; i++ {
			last = checkC14(&c)
			if len(last.Violations) > 0 {
				return last, nil
			}
		}
		return last, nil
	}})
}

func TestC14(t *testing.T) {
	rapid.Check(t, func(t *rapid.T) {
		cfg := genConfig(t, genOpts{noText: true})
		cfg.MaxMsg = 1 << 16
		cfg.ViaDefaults = false
		c := &concCase{Config: cfg, Procs: rapid.SampledFrom([]int{1, 2, 4, 16}).Draw(t, "procs")}
		if rapid.IntRange(0, 2).Draw(t, "duplex_case") == 0 {
			c.Config.Protocols = []string{rapid.SampledFrom([]string{ProtoGRPC, ProtoConnect, ProtoGRPCWeb}).Draw(t, "duplex_target")}
			bc := rapid.SampledFrom([]string{CodecProto, CodecJSON}).Draw(t, "duplex_backend_codec")
			c.Config.Codecs = []string{bc}
			n := rapid.IntRange(1, 4).Draw(t, "n_duplex")
			for i := 0; i < n; i++ {
				d := duplexSpec{Target: c.Config.Protocols[0], BackendCodec: bc, FaultAt: -1}
				d.Form = rapid.SampledFrom([]string{FormConnectStream, FormGRPC, FormGRPCWeb}).Draw(t, "duplex_form")
				d.Codec = rapid.SampledFrom([]string{CodecProto, CodecJSON}).Draw(t, "duplex_codec")
				d.NReq = rapid.IntRange(1, 12).Draw(t, "duplex_nreq")
				d.NResp = rapid.IntRange(1, 12).Draw(t, "duplex_nresp")
				d.PayloadLen = rapid.SampledFrom([]int{0, 1, 10, 200, 3000}).Draw(t, "duplex_len")
				d.Yield = rapid.IntRange(0, 3).Draw(t, "duplex_yield")
				d.CloseEarly = rapid.IntRange(0, 2).Draw(t, "duplex_close_early") == 0
				if rapid.Bool().Draw(t, "duplex_fault") {
					d.FaultAt = rapid.IntRange(0, d.NReq-1).Draw(t, "duplex_fault_at")
					d.FaultKind = rapid.SampledFrom([]string{"flag", "cut"}).Draw(t, "duplex_fault_kind")
				}
				c.Duplex = append(c.Duplex, d)
			}
		} else {
			n := rapid.IntRange(2, 24).Draw(t, "batch_size")
			o := genOpts{maxBlob: 60, backendKinds: []string{"ok", "ok", "ok", "error", "http_status"}, noText: true}
			for i := 0; i < n; i++ {
				sc := Scenario{Config: cfg}
				sc.Client = genClient(t, &cfg, o)
				sc.Backend = genBackend(t, &sc.Client, o)
				switch rapid.IntRange(0, 7).Draw(t, "batch_kind") {
				case 0:
					sc.Client.Fault = genFault(t, requestFaults)
				case 1:
					sc.Backend.Fault = genFault(t, responseFaults)
				case 2:
					if sc.Client.Compression == "" {
						sc.Client.Compression = CompGzip
					}
					sc.Client.Fault = &Fault{Kind: FaultBitFlip, At: rapid.IntRange(0, 100).Draw(t, "bitflip_at"), Val: rapid.IntRange(0, 7).Draw(t, "bitflip_bit")}
				}
				sc.Config = cfg
				c.Batch = append(c.Batch, sc)
			}
			c.Order = rapid.Permutation(intRange(n)).Draw(t, "start_order")
			if n >= 3 && rapid.Bool().Draw(t, "with_prelude") {
				c.Prelude = rapid.IntRange(1, minInt(3, n-2)).Draw(t, "prelude")
				overLimit := rapid.Bool().Draw(t, "prelude_over_limit")
				if overLimit && rapid.IntRange(0, 2).Draw(t, "prelude_one_proc") > 0 {
					c.Procs = 1 // what sync.Pool hands out then does not depend on goroutine placement
				}
				if rapid.Bool().Draw(t, "all_inflate") || overLimit {
					// everyone sends gzip and the backend takes none: every RPC of the batch goes through
					// the transcoder's decompressor pool
					cfg.Compressions = []string{}
					c.Config = cfg
					for i := range c.Batch {
						c.Batch[i].Config = cfg
						if c.Batch[i].Client.Form != FormConnectGet || c.Batch[i].Client.Compression != "" {
							c.Batch[i].Client.Compression, c.Batch[i].Client.Identity = CompGzip, false
							c.Batch[i].Client.MsgRaw = nil
						}
					}
				}
				for _, i := range c.Order[:c.Prelude] {
					// the prelude is made of requests that fail inside the transcoder
					sc := &c.Batch[i]
					if sc.Client.Compression == "" {
						sc.Client.Compression = CompGzip
					}
					sc.Client.MsgRaw = nil
					if overLimit && len(sc.Client.Msgs) > 0 {
						// ... or that inflate past the message size limit (64 KiB here) from a few hundred bytes
						mi := lookupMethod(benchService, sc.Client.Method)
						big := newMessage(mi.In)
						if fd := big.ProtoReflect().Descriptor().Fields().ByName("string_value"); fd != nil && fd.Kind() == protoreflect.StringKind && !fd.IsList() {
							big.ProtoReflect().Set(fd, valueOfString(strings.Repeat("inflates past the limit ", 4000)))
							sc.Client.Msgs[0] = mustMarshal(big)
							continue
						}
					}
					sc.Client.Fault = &Fault{Kind: FaultBitFlip, At: rapid.IntRange(0, 12).Draw(t, "prelude_bitflip_at"), Val: rapid.IntRange(0, 7).Draw(t, "prelude_bit")}
				}
			}
		}
		judge(t, "C14", c, checkC14(c))
	})
}

// ---- race detector log ----------------------------------------------------------

var raceLogPath = func() string {
	for _, kv := range strings.Fields(os.Getenv("GORACE")) {
		if strings.HasPrefix(kv, "log_path=") {
			return strings.TrimPrefix(kv, "log_path=") + "." + fmt.Sprint(os.Getpid())
		}
	}
	return ""
}()

var raceLogOffset int64

func newRaceReports() []string {
	if raceLogPath == "" {
		return nil
	}
	f, err := os.Open(raceLogPath)
	if err != nil {
		return nil
	}
	defer f.Close()
	if _, err := f.Seek(raceLogOffset, io.SeekStart); err != nil {
		return nil
	}
	b, _ := io.ReadAll(f)
	raceLogOffset += int64(len(b))
	var out []string
	for _, r := range strings.Split(string(b), "==================") {
		if strings.Contains(r, "WARNING: DATA RACE") {
			out = append(out, r)
		}
	}
	return out
}

var frameRe = regexp.MustCompile(`(?m)^\s+(connectrpc\.com/vanguard\.[^\s(]+(?:\([^)]*\))?[^\s(]*)\(`)

// raceSignature: the first vanguard frame of each of the two accesses, sorted.
func raceSignature(report string) (string, bool) {
	// Root cause D13: a request-body reader (driven by one goroutine of the handler) reports an
	// error through the unsynchronised responseWriter while another goroutine of the same
	// handler uses that writer or its header map.
	for _, sec := range strings.Split(report, "\n\n") {
		if !(strings.Contains(sec, "Read at") || strings.Contains(sec, "Write at") || strings.Contains(sec, "read at") || strings.Contains(sec, "write at")) {
			continue // a "Goroutine N created at" section
		}
		if strings.Contains(sec, "(*responseWriter).reportError") &&
			(strings.Contains(sec, "Reader).Read") || strings.Contains(sec, "Reader).prepareNext") || strings.Contains(sec, "readRequestMessage")) {
			return "reader-side-reportError", true
		}
	}
	// The same root cause seen from its other end: the error value (or the end it was wrapped in) that
	// the reader goroutine created and handed over through reportError is read by the goroutine that
	// uses the responseWriter (Write -> WriteHeader -> flushHeaders -> writeEnd -> encodeEnd).
	readerSide, writerSide := false, false
	for _, sec := range strings.Split(report, "\n\n") {
		if !(strings.Contains(sec, "Read at") || strings.Contains(sec, "Write at") || strings.Contains(sec, "read at") || strings.Contains(sec, "write at")) {
			continue
		}
		isReader := strings.Contains(sec, "readRequestMessage") || strings.Contains(sec, "Reader).Read") || strings.Contains(sec, "Reader).prepareNext") || strings.Contains(sec, "processRequestEnvelope")
		isWriter := strings.Contains(sec, "(*responseWriter).Write") || strings.Contains(sec, "(*responseWriter).WriteHeader") || strings.Contains(sec, "(*responseWriter).flushHeaders") || strings.Contains(sec, "(*responseWriter).writeEnd") || strings.Contains(sec, "(*responseWriter).Flush")
		if isReader && !isWriter {
			readerSide = true
		}
		if isWriter && !isReader {
			writerSide = true
		}
	}
	if readerSide && writerSide {
		return "reader-side-reportError", true
	}
	parts := regexp.MustCompile(`(?m)^(Previous|Read|Write|Goroutine)`).Split(report, -1)
	var sites []string
	for _, p := range parts {
		lines := strings.Split(p, "\n")
		for _, l := range lines {
			l = strings.TrimSpace(l)
			if strings.HasPrefix(l, "connectrpc.com/vanguard.") && !strings.Contains(l, "internal/verifbench") {
				if i := strings.LastIndex(l, "("); i > 0 {
					l = l[:i]
				}
				sites = append(sites, strings.TrimPrefix(l, "connectrpc.com/vanguard."))
				break
			}
		}
		if len(sites) == 2 {
			break
		}
	}
	if len(sites) == 0 {
		return "", false
	}
	sort.Strings(sites)
	return strings.Join(sites, "|"), true
}

// ---- duplex streams -----------------------------------------------------------------

type duplexObs struct {
	status      int
	outcome     string
	msgs        int
	handlerRead int
	panicked    string
	hang        bool
}

func duplexContentType(form, codec string) []KV {
	switch form {
	case FormConnectStream:
		return []KV{{"Content-Type", "application/connect+" + codec}}
	case FormGRPC:
		return []KV{{"Content-Type", "application/grpc+" + codec}, {"Te", "trailers"}}
	default:
		return []KV{{"Content-Type", "application/grpc-web+" + codec}}
	}
}

func duplexPayload(codec string, n int, seq int) []byte {
	m := newMessage(msgAll)
	fs := m.ProtoReflect().Descriptor().Fields()
	m.ProtoReflect().Set(fs.ByName("int32_value"), valueOfInt32(int32(seq+1)))
	if n > 0 {
		m.ProtoReflect().Set(fs.ByName("string_value"), valueOfString(strings.Repeat("d", n)))
	}
	p, _ := encodeMsg(codec, JSONStyle{}, m)
	return p
}

func runDuplex(tr *vanguard.Transcoder, id int, d duplexSpec) duplexObs {
	var ob duplexObs
	pr, pw := io.Pipe()
	var done int32
	hdr := append(duplexContentType(d.Form, d.Codec), KV{"X-Duplex-Id", fmt.Sprint(id)})
	req, _, _, err := newRequest("POST", "/"+benchService+"/Bidi", hdr, []byte{}, true, -1, nil, false, &done)
	if err != nil {
		ob.panicked = "build: " + err.Error()
		return ob
	}
	req.Body = pr
	rec := newRecorder(&done)
	// client writer
	go func() {
		defer pw.Close()
		for i := 0; i < d.NReq; i++ {
			p := duplexPayload(d.Codec, d.PayloadLen, i)
			var hdr [5]byte
			binary.BigEndian.PutUint32(hdr[1:], uint32(len(p)))
			if i == d.FaultAt && d.FaultKind == "flag" {
				hdr[0] = 0x4c
			}
			if _, err := pw.Write(hdr[:]); err != nil {
				return
			}
			if i == d.FaultAt && d.FaultKind == "cut" {
				_, _ = pw.Write(p[:len(p)/2])
				pw.CloseWithError(io.ErrUnexpectedEOF)
				return
			}
			if _, err := pw.Write(p); err != nil {
				return
			}
			for y := 0; y < d.Yield; y++ {
				runtime.Gosched()
			}
		}
	}()
	finished := make(chan struct{})
	go func() {
		defer close(finished)
		defer func() {
			if p := recover(); p != nil {
				ob.panicked = fmt.Sprint(p)
			}
		}()
		tr.ServeHTTP(rec, req)
	}()
	select {
	case <-finished:
	case <-time.After(watchdog):
		ob.hang = true
		pw.CloseWithError(io.ErrClosedPipe)
		return ob
	}
	atomic.StoreInt32(&done, 1)
	sc := &Scenario{Client: Client{Form: d.Form, Method: "Bidi", Codec: d.Codec}}
	cv := parseClientResponse(sc, &encodedRequest{MI: lookupMethod(benchService, "Bidi")}, rec, rec.Trailers())
	ob.status = rec.Status
	ob.outcome = cv.outcome()
	ob.msgs = len(cv.Msgs)
	return ob
}

// duplexHandler: reads and writes from two goroutines, in the protocol of the target.
func duplexHandler(specFor func(r *http.Request) duplexSpec) http.Handler {
	return http.HandlerFunc(func(w http.ResponseWriter, r *http.Request) {
		d := specFor(r)
		var wg sync.WaitGroup
		wg.Add(2)
		var readErr error
		// a panic on one of the handler's own goroutines would end the process; it is carried over to
		// the goroutine ServeHTTP runs on, where the caller records it
		var carried atomic.Value
		carry := func() {
			if p := recover(); p != nil {
				carried.CompareAndSwap(nil, fmt.Sprintf("%v (on a goroutine of the handler)\n%s", p, trimStack(string(debug.Stack()))))
			}
		}
		go func() {
			defer wg.Done()
			defer carry()
			var hdr [5]byte
			for {
				if _, err := io.ReadFull(r.Body, hdr[:]); err != nil {
					if err != io.EOF {
						readErr = err
					}
					return
				}
				if hdr[0] > 1 {
					readErr = fmt.Errorf("invalid envelope flags %#x", hdr[0])
					return
				}
				n := binary.BigEndian.Uint32(hdr[1:])
				if n > 1<<20 {
					readErr = fmt.Errorf("frame too large")
					return
				}
				if _, err := io.CopyN(io.Discard, r.Body, int64(n)); err != nil {
					readErr = err
					return
				}
			}
		}()
		ct := r.Header.Get("Content-Type")
		w.Header().Set("Content-Type", ct)
		fl, _ := w.(http.Flusher)
		go func() {
			defer wg.Done()
			defer carry()
			for i := 0; i < d.NResp; i++ {
				p := duplexPayload(d.BackendCodec, d.PayloadLen, 1000+i)
				if _, err := w.Write(appendFrame(nil, 0, p)); err != nil {
					return
				}
				if fl != nil {
					fl.Flush()
				}
				runtime.Gosched()
			}
			if d.CloseEarly {
				_ = r.Body.Close()
			}
		}()
		wg.Wait()
		if p := carried.Load(); p != nil {
			panic(p)
		}
		code := "0"
		if readErr != nil {
			code = "13"
		}
		switch {
		case strings.HasPrefix(ct, "application/grpc-web"):
			_, _ = w.Write(appendFrame(nil, 0x80, []byte("grpc-status: "+code+"\r\n")))
		case strings.HasPrefix(ct, "application/grpc"):
			w.Header().Set(http.TrailerPrefix+"Grpc-Status", code)
		default:
			end := `{}`
			if readErr != nil {
				end = `{"error":{"code":"internal","message":"handler could not read the request"}}`
			}
			_, _ = w.Write(appendFrame(nil, 2, []byte(end)))
		}
	})
}

func checkC14(c *concCase) *CheckResult {
	res := &CheckResult{}
	takeCompMisuse() // forget what earlier cases left
	atomic.StoreInt32(&compStretch, 1)
	defer atomic.StoreInt32(&compStretch, 0)
	raw, _ := json.Marshal(c)
	res.Key = string(raw)
	prev := runtime.GOMAXPROCS(0)
	if c.Procs > 0 {
		runtime.GOMAXPROCS(c.Procs)
	}
	defer runtime.GOMAXPROCS(prev)
	_ = newRaceReports() // discard anything earlier
	vanguard.VerifPoolEnable(true, false)
	defer vanguard.VerifPoolDisable()
	if len(c.Duplex) > 0 {
		byID := func(r *http.Request) duplexSpec {
			var id int
			fmt.Sscanf(r.Header.Get("X-Duplex-Id"), "%d", &id)
			if id >= 0 && id < len(c.Duplex) {
				return c.Duplex[id]
			}
			return c.Duplex[0]
		}
		// solo runs, each on a fresh transcoder
		solo := make([]duplexObs, len(c.Duplex))
		for i, d := range c.Duplex {
			fresh, err := buildTranscoder(c.Config, duplexHandler(byID), nil)
			if err != nil {
				res.Skipped = true
				return res
			}
			solo[i] = runDuplex(fresh, i, d)
		}
		// all of them concurrently on ONE transcoder
		tr, err := buildTranscoder(c.Config, duplexHandler(byID), nil)
		if err != nil {
			res.Skipped = true
			return res
		}
		conc := make([]duplexObs, len(c.Duplex))
		var wg sync.WaitGroup
		for i, d := range c.Duplex {
			wg.Add(1)
			go func(i int, d duplexSpec) {
				defer wg.Done()
				conc[i] = runDuplex(tr, i, d)
			}(i, d)
		}
		wg.Wait()
		faulted := false
		for i, d := range c.Duplex {
			if d.FaultAt >= 0 {
				faulted = true
			}
			for _, ob := range []duplexObs{solo[i], conc[i]} {
				if ob.hang {
					res.violate("hang", "hang", "duplex stream %d (%+v) did not finish within %s", i, d, watchdog)
				}
				if ob.panicked != "" {
					res.violate("panic", "panic:duplex", "duplex stream %d (%+v) panicked: %s", i, d, ob.panicked)
				}
			}
			if len(res.Violations) > 0 {
				return res
			}
			// (with a fault in flight the precise error code depends on which side notices first)
			if d.FaultAt < 0 && !d.CloseEarly && conc[i].outcome != solo[i].outcome {
				res.violate("not_isolated", "c14:duplex", "duplex stream %d (%+v): outcome %s when run concurrently, %s alone", i, d, conc[i].outcome, solo[i].outcome)
			}
			if d.CloseEarly {
				continue // the handler itself abandons the request at an arbitrary point
			}
			if d.FaultAt < 0 {
				if conc[i].outcome != "ok" || conc[i].msgs != d.NResp {
					res.violate("duplex_outcome", "c14:duplex", "duplex stream %d (%+v): client saw outcome %s with %d messages, want ok with %d", i, d, conc[i].outcome, conc[i].msgs, d.NResp)
				}
			} else if conc[i].outcome == "ok" {
				res.violate("duplex_fault_ok", "c14:duplex", "duplex stream %d (%+v): request-side fault but the client saw OK", i, d)
			}
		}
		res.NonTrivial = faulted || len(c.Duplex) > 1
		res.class("duplex n=%d faulted=%v procs=%d", len(c.Duplex), faulted, c.Procs)
		res.Sample = map[string]any{"duplex": c.Duplex, "procs": c.Procs}
	} else {
		// solo outcomes on fresh transcoders, with the ordinary (not instrumented) pool: they are
		// the reference, and a defect that needs the poisoning pool to show (data read from a buffer
		// after its release) must not corrupt the reference the same way
		vanguard.VerifPoolDisable()
		solo := make([]probeObs, len(c.Batch))
		for i := range c.Batch {
			fresh, err := newSharedTranscoder(c.Config)
			if err != nil {
				res.Skipped = true
				return res
			}
			solo[i], _ = observeProbe(&c.Batch[i], fresh)
		}
		vanguard.VerifPoolEnable(true, false)
		shared, err := newSharedTranscoder(c.Config)
		if err != nil {
			res.Skipped = true
			return res
		}
		conc := make([]probeObs, len(c.Batch))
		outs := make([]*Outcome, len(c.Batch))
		var wg sync.WaitGroup
		start := make(chan struct{})
		order := c.Order
		if len(order) != len(c.Batch) {
			order = intRange(len(c.Batch))
		}
		// a prelude of the batch runs to completion, one RPC after the other, before the rest starts
		// concurrently: whatever a failing request leaves behind in the pools is in place by then
		prelude := c.Prelude
		if prelude > len(order)-2 {
			prelude = 0
		}
		for _, i := range order[:prelude] {
			conc[i], outs[i] = observeProbe(&c.Batch[i], shared)
		}
		for _, i := range order[prelude:] {
			wg.Add(1)
			go func(i int) {
				defer wg.Done()
				<-start
				conc[i], outs[i] = observeProbe(&c.Batch[i], shared)
			}(i)
		}
		close(start)
		wg.Wait()
		for i := range c.Batch {
			if solo[i].panic != "" || conc[i].panic != "" {
				if strings.HasPrefix(solo[i].panic, "unbuildable") {
					continue
				}
				if outs[i] != nil && (outs[i].Hang || outs[i].PanicInVanguard) {
					panicViolation(res, outs[i])
					return res
				}
				continue
			}
			if d := solo[i].client.diff(conc[i].client); len(d) > 0 {
				res.violate("not_isolated", "c14:outcome", "RPC %d of %d (%s %s): outcome when run concurrently differs from its solo run: %s", i, len(c.Batch), c.Batch[i].Client.Form, c.Batch[i].Client.Method, strings.Join(d, "; "))
			}
			if solo[i].backend != conc[i].backend {
				res.violate("not_isolated", "c14:backend", "RPC %d of %d (%s %s): backend observed a different request when run concurrently", i, len(c.Batch), c.Batch[i].Client.Form, c.Batch[i].Client.Method)
			}
		}
		res.NonTrivial = len(c.Batch) >= 2
		res.class("batch n=%d procs=%d", len(c.Batch), c.Procs)
		res.Sample = map[string]any{"batch_size": len(c.Batch), "procs": c.Procs, "forms": batchForms(c.Batch)}
	}
	for _, n := range takeCompMisuse() {
		res.violate("compressor_shared", "c14:comp:shared", "%s", n)
	}
	st := vanguard.VerifPoolSnapshot(true)
	if st.DoublePuts > 0 {
		res.violate("double_release", "c14:pool:double_put", "%d pooled buffer(s) were released twice", st.DoublePuts)
	}
	if st.LiveGets > 0 {
		res.violate("live_reuse", "c14:pool:live_get", "%d buffer(s) handed out while still in use", st.LiveGets)
	}
	if st.PoisonBroken > 0 {
		res.violate("write_after_release", "c14:pool:poison", "%d released buffer(s) were written to after their release", st.PoisonBroken)
	}
	for _, rep := range newRaceReports() {
		sig, inVanguard := raceSignature(rep)
		if !inVanguard {
			res.class("race_outside_vanguard")
			continue
		}
		short := rep
		if len(short) > 1800 {
			short = short[:1800]
		}
		res.violate("data_race", "c14:race:"+sig, "race detector report involving package vanguard (%s):\n%s", sig, short)
	}
	return res
}

func batchForms(b []Scenario) string {
	m := map[string]int{}
	for _, s := range b {
		m[s.Client.Form]++
	}
	return fmt.Sprint(m)
}

func anyTrue(bs []bool) bool {
	for _, b := range bs {
		if b {
			return true
		}
	}
	return false
}
