package verifbench

import (
	"encoding/json"
	"fmt"
	"strings"
	"testing"

	"google.golang.org/protobuf/proto"
	"pgregory.net/rapid"
)

// C09 - truncated or malformed streams never surface as success (fault enumeration).

const ruleC09 = "a valid generated scenario plus ONE injected fault on the request or the response side: body cut at byte offset k (reader error or handler return; half of the cuts are snapped to the framing: right after an envelope prefix, at a frame start, inside a prefix, one byte short of a frame end), envelope flag byte set to any value 0-255, envelope length over/under-stated, one bit of the body flipped (compressed payloads), payload replaced by undecodable bytes, Content-Length over/under-stated, terminal status removed, data appended after the end, bytes after the JSON object inside a Connect end-of-stream frame. A quarter of the request-side faults meet a full-duplex handler that answers (whole, per frame or in chunks) before it reads the request and ignores what the read yields; for it the shape of the response is asserted (one end, nothing after it, a well-formed end after a frame cut on a streaming path). Oracle: the reference decoder re-reads the faulty bytes; if it rejects them the client outcome must be non-OK, the response must terminate and be well formed for the client protocol (for a payload cut on a streaming path: not OK and a well-formed end appended), and every message the backend got as complete must be one the client completely sent. Non-trivial = the reference rejects the faulty stream (the fault changed a flag/length or landed inside a frame); distinct by hash(client triple, backend triple, direction, fault kind, position class)."

func init() { registerScenarioProp("C09", ruleC09, checkC09) }

var requestFaults = []string{FaultCut, FaultCut, FaultFlag, FaultLenPlus, FaultLenMinus, FaultBitFlip, FaultGarbage, FaultCLPlus, FaultCLMinus}
var responseFaults = []string{FaultCut, FaultCut, FaultFlag, FaultLenPlus, FaultLenMinus, FaultBitFlip, FaultGarbage, FaultCLPlus, FaultCLMinus, FaultNoStatus, FaultEndTrail}

func genFault(t *rapid.T, kinds []string) *Fault {
	f := &Fault{Kind: rapid.SampledFrom(kinds).Draw(t, "fault_kind")}
	f.At = rapid.IntRange(0, 600).Draw(t, "fault_at")
	switch f.Kind {
	case FaultCut:
		f.Val = rapid.SampledFrom([]int{0, 0, 0, 1, 1, 2, 3, 4}).Draw(t, "fault_cut_snap")
	case FaultFlag:
		f.Val = rapid.SampledFrom([]int{1, 2, 3, 4, 8, 9, 0x10, 0x40, 0x7f, 0x80, 0x81, 0x82, 0xfe, 0xff, 0}).Draw(t, "fault_flag")
		f.At = rapid.IntRange(0, 4).Draw(t, "fault_frame")
	case FaultLenPlus, FaultLenMinus:
		f.Val = rapid.SampledFrom([]int{1, 1, 2, 5, 100, 70000}).Draw(t, "fault_delta")
		f.At = rapid.IntRange(0, 4).Draw(t, "fault_frame")
	case FaultBitFlip:
		f.Val = rapid.IntRange(0, 7).Draw(t, "fault_bit")
	case FaultGarbage:
		f.At = rapid.IntRange(0, 4).Draw(t, "fault_frame")
	case FaultCLPlus, FaultCLMinus:
		f.Val = rapid.SampledFrom([]int{1, 1, 2, 5, 1000}).Draw(t, "fault_cl_delta")
	}
	return f
}

func TestC09(t *testing.T) {
	enumerateC09(t)
	rapid.Check(t, propC09)
}

func propC09(t *rapid.T) {
	{
		o := genOpts{maxBlob: 16, backendKinds: []string{"ok", "ok", "ok", "error"}, noText: true, segmentation: rapid.IntRange(0, 4).Draw(t, "use_segmentation") == 0}
		sc := genScenario(t, o)
		// bit flips in length bytes announce gigabytes; a 1 MiB limit keeps the (legitimate,
		// limit-bounded) up-front allocation of the transcoder cheap
		sc.Config.MaxMsg = 1 << 20
		if rapid.Bool().Draw(t, "fault_on_request") {
			sc.Client.Fault = genFault(t, requestFaults)
			if formEnveloped(sc.Client.Form) && rapid.IntRange(0, 2).Draw(t, "duplex_backend") == 0 {
				if (sc.Client.Form == FormGRPC || sc.Client.Form == FormGRPCWeb) && rapid.Bool().Draw(t, "duplex_connect_target") {
					// toward a Connect backend a unary answer is held back by the transcoder (to be enveloped)
					// while the handler is still running
					sc.Config.Protocols = []string{ProtoConnect}
					sc.Config.OtherOpts = nil
				}
				if rapid.Bool().Draw(t, "duplex_invalid_flag") {
					// a fault the transcoder finds by itself while the handler is already answering
					sc.Client.Fault = &Fault{Kind: FaultFlag, At: rapid.IntRange(0, 2).Draw(t, "duplex_flag_frame"), Val: rapid.SampledFrom([]int{2, 3, 9, 0x80, 0xff, 1}).Draw(t, "duplex_flag")}
				}
				// a streaming handler that has already sent (some of) its answer when the request turns out
				// to be faulty, and keeps answering per script
				sc.Backend.ReadAfterWrites = rapid.IntRange(1, 3).Draw(t, "read_after_writes")
				sc.Backend.WriteChunk = rapid.SampledFrom([]int{0, 0, 7, 40}).Draw(t, "duplex_write_chunk")
				sc.Backend.WritePerFrame = rapid.Bool().Draw(t, "duplex_per_frame")
			}
		} else {
			sc.Backend.Fault = genFault(t, responseFaults)
		}
		judge(t, "C09", sc, checkC09(sc))
	}
}

// refDecodeFrames applies the reference reading of an enveloped stream.
// Returns the messages of the valid prefix and whether the whole stream is valid.
func refDecodeFrames(body []byte, codec, comp, typeName string, dataFlagOK func(byte) bool, endFlag func(byte) bool, wantEnd bool) (msgs []proto.Message, valid bool, why string) {
	frames, err := parseFrames(body)
	valid = true
	ended := false
	for i, fr := range frames {
		if ended {
			// bytes after a complete end frame: outside the fault classes of the statement
			return msgs, true, "data after end (not asserted)"
		}
		if endFlag != nil && endFlag(fr.Flags) {
			ended = true
			continue
		}
		if !dataFlagOK(fr.Flags) {
			return msgs, false, fmt.Sprintf("frame %d flags 0x%02x", i, fr.Flags)
		}
		p := fr.Payload
		if fr.Flags&1 != 0 {
			if comp == "" {
				return msgs, false, "compressed flag without compression"
			}
			d, derr := decompressBytes(comp, p)
			if derr != nil {
				return msgs, false, "payload does not inflate"
			}
			p = d
		}
		if typeName != "" {
			m, derr := decodeMsgLenient(codec, p, typeName)
			if derr != nil {
				return msgs, false, "payload does not decode"
			}
			msgs = append(msgs, m)
		}
	}
	if err != nil && ended {
		return msgs, true, "data after end (not asserted)"
	}
	if err != nil {
		return msgs, false, err.Error()
	}
	if wantEnd && !ended {
		return msgs, false, "no end frame"
	}
	return msgs, valid, ""
}

func flags01(f byte) bool { return f == 0 || f == 1 }

// refAllMessages decodes every complete frame of the (faulty) request on its own:
// nil where a frame is invalid. For un-enveloped forms it is the single body.
func refAllMessages(sc *Scenario, enc *encodedRequest) []proto.Message {
	c := &sc.Client
	if !formEnveloped(c.Form) {
		m, _, _ := refRequest(sc, enc)
		return m
	}
	frames, _ := parseFrames(enc.Body)
	var out []proto.Message
	for _, fr := range frames {
		if !flags01(fr.Flags) || (fr.Flags == 1 && c.Compression == "") {
			out = append(out, nil)
			continue
		}
		p := fr.Payload
		if fr.Flags == 1 {
			d, err := decompressBytes(c.Compression, p)
			if err != nil {
				out = append(out, nil)
				continue
			}
			p = d
		}
		m, err := decodeMsgLenient(c.Codec, p, enc.MI.In)
		if err != nil {
			out = append(out, nil)
			continue
		}
		out = append(out, m)
	}
	return out
}

// refRequest decides whether the (faulty) request the client put on the wire is
// still a valid request, and which complete messages it carries.
func refRequest(sc *Scenario, enc *encodedRequest) (msgs []proto.Message, valid bool, why string) {
	c := &sc.Client
	if enc.MI == nil {
		return nil, false, "no method"
	}
	f := c.Fault
	transportErr := enc.BodyErr != nil
	_ = f
	switch {
	case formEnveloped(c.Form):
		m, ok, w := refDecodeFrames(enc.Body, c.Codec, c.Compression, enc.MI.In, flags01, nil, false)
		if transportErr {
			return m, false, "transport error"
		}
		return m, ok, w
	case c.Form == FormConnectUnary:
		if transportErr {
			return nil, false, "transport error"
		}
		p := enc.Body
		if c.Compression != "" {
			d, err := decompressBytes(c.Compression, p)
			if err != nil {
				return nil, false, "body does not inflate"
			}
			p = d
		}
		m, err := decodeMsgLenient(c.Codec, p, enc.MI.In)
		if err != nil {
			return nil, false, "body does not decode"
		}
		return []proto.Message{m}, true, ""
	}
	return nil, !transportErr, ""
}

// refResponse: same for the (faulty) response the backend wrote.
func refResponse(sc *Scenario, view *BackendView, resp *builtResponse) (msgs []proto.Message, valid bool, why string) {
	if view.MI == nil {
		return nil, false, "no method"
	}
	out := view.MI.Out
	comp := ""
	switch {
	case view.Protocol == ProtoGRPC || view.Protocol == ProtoGRPCWeb:
		comp = resp.Header.Get("Grpc-Encoding")
	case view.Protocol == ProtoConnect && view.Sub == "stream":
		comp = resp.Header.Get("Connect-Content-Encoding")
	default:
		comp = resp.Header.Get("Content-Encoding")
	}
	if comp == "identity" {
		comp = ""
	}
	clOK := true
	if resp.CL != nil && *resp.CL != len(resp.Body) {
		clOK = false
	}
	switch {
	case view.Protocol == ProtoGRPC:
		m, ok, w := refDecodeFrames(resp.Body, view.Codec, comp, out, flags01, nil, false)
		if !clOK {
			return m, false, "content-length mismatch"
		}
		if resp.Trailer.Get("Grpc-Status") == "" && resp.Header.Get("Grpc-Status") == "" {
			return m, false, "no grpc-status"
		}
		return m, ok, w
	case view.Protocol == ProtoGRPCWeb:
		// (in-band end: a complete frame sequence with its end frame is complete whatever an
		// in-process handler declared as Content-Length; not asserted, see DESIGN appendix B)
		m, ok, w := refDecodeFrames(resp.Body, view.Codec, comp, out, flags01, func(f byte) bool { return f&0x80 != 0 && f&0x7e == 0 }, resp.Header.Get("Grpc-Status") == "")
		if !clOK && ok {
			return m, true, "content-length mismatch ignored (in-band end)"
		}
		return m, ok, w
	case view.Protocol == ProtoConnect && view.Sub == "stream":
		m, ok, w := refDecodeFrames(resp.Body, view.Codec, comp, out, flags01, func(f byte) bool { return f&2 != 0 && f&^3 == 0 }, true)
		if ok {
			// the end frame itself must still be valid JSON
			frames, _ := parseFrames(resp.Body)
			for _, fr := range frames {
				if fr.Flags&2 != 0 {
					p := fr.Payload
					if fr.Flags&1 != 0 {
						d, derr := decompressBytes(comp, p)
						if derr != nil || comp == "" {
							return m, false, "end frame does not inflate"
						}
						p = d
					}
					// any JSON object is an acceptable end-of-stream message (unknown keys are ignored)
					var end connectEndJSON
					if json.Unmarshal(p, &end) != nil {
						return m, false, "end frame corrupted"
					}
					break
				}
			}
		}
		return m, ok, w
	default: // un-enveloped
		if !clOK {
			return nil, false, "content-length mismatch"
		}
		if resp.Status != 200 {
			return nil, true, ""
		}
		p := resp.Body
		if comp != "" {
			d, err := decompressBytes(comp, p)
			if err != nil {
				return nil, false, "body does not inflate"
			}
			p = d
		}
		if view.Protocol == ProtoREST {
			return nil, true, "" // JSON / HttpBody: delegated to the client-side decoder
		}
		m, err := decodeMsgLenient(view.Codec, p, out)
		if err != nil {
			return nil, false, "body does not decode"
		}
		return []proto.Message{m}, true, ""
	}
}

// tailHasWellFormedEnd looks for a well-formed terminal disposition appended
// after a truncated payload (streaming paths cannot retract the frame header).
func tailHasWellFormedEnd(form string, body []byte) bool {
	for off := len(body) - 5; off >= 0; off-- {
		fr, err := parseFrames(body[off:])
		if err != nil || len(fr) != 1 {
			continue
		}
		switch form {
		case FormConnectStream:
			if fr[0].Flags&2 == 0 || fr[0].Flags&^3 != 0 {
				continue
			}
			var end connectEndJSON
			if json.Unmarshal(fr[0].Payload, &end) != nil || len(end.Error) == 0 {
				continue
			}
			if e, ps := parseConnectErrorJSON(end.Error); e != nil && len(ps) == 0 {
				return true
			}
		case FormGRPCWeb:
			if fr[0].Flags != 0x80 {
				continue
			}
			if strings.Contains(strings.ToLower(string(fr[0].Payload)), "grpc-status:") && !strings.Contains(strings.ToLower(string(fr[0].Payload)), "grpc-status: 0\r") {
				return true
			}
		}
	}
	return false
}

func hangViolation(res *CheckResult, out *Outcome) bool {
	if out.Hang && out.HangWhy != "" {
		res.violate("hang", "hang", "the exchange wedged: %s", out.HangWhy)
		return true
	}
	if out.Hang {
		res.violate("hang", "hang", "ServeHTTP did not return within %s although both peers had finished", watchdog)
		return true
	}
	return false
}

func checkC09(sc *Scenario) *CheckResult {
	res := &CheckResult{}
	out := runScenario(sc)
	if out.BuildErr != "" || out.ConfigErr != "" {
		res.Skipped = true
		return res
	}
	if hangViolation(res, out) || panicViolation(res, out) {
		return res
	}
	cv := out.Client
	view := out.Backend
	c := &sc.Client
	ct := clientTriple(c, out.Sent)
	bt := view.triple()
	dir, f := "request", c.Fault
	if f == nil {
		dir, f = "response", sc.Backend.Fault
	}
	if f == nil {
		res.Skipped = true
		return res
	}
	path := "convert"
	if ct == bt {
		path = "passthrough"
	}
	sig := "c09:" + dir + ":" + f.Kind
	if fs := featureSig(sc, view, dir); strings.Contains(fs, ":to_unenveloped") && (strings.Contains(fs, ":rawframe") || (f.Kind == FaultFlag && f.Val == 0) || f.Kind == FaultBitFlip || f.Kind == FaultReplace || f.Kind == FaultSplice) {
		// an uncompressed frame inside a compression-declaring stream towards an un-enveloped
		// peer: the region of known finding D10 (the stream-level Content-Encoding is wrong there)
		sig = "c09:" + dir + ":rawframe:to_unenveloped:" + f.Kind
	}
	if dir == "request" {
		sent, valid, why := refRequest(sc, out.Sent)
		res.class("dir=request fault=%s valid=%v form=%s path=%s outcome=%s", f.Kind, valid, c.Form, path, cv.outcome())
		res.Key = fmt.Sprintf("%s|%s|req|%s|%d|%d|%s", ct, bt, f.Kind, f.At%7, f.Val, why)
		res.NonTrivial = !valid
		res.Sample = map[string]any{"direction": dir, "fault": f, "client": ct, "backend": bt, "reference_says": why, "client_outcome": cv.outcome(), "client_status": cv.Status}
		if valid {
			return res
		}
		if path == "passthrough" {
			// the backend itself is handed the client's bytes untouched and answers on its own (C13)
			res.class("passthrough_fault")
			return res
		}
		if formEnveloped(c.Form) && view != nil && (view.Protocol == ProtoREST || (view.Protocol == ProtoConnect && view.Sub != "stream")) {
			// An un-enveloped backend request ends with its single message. If the first frame
			// on the wire is complete and valid and that is what the backend got, whatever is
			// wrong behind it (missing promised bytes, trailing garbage, further frames) is never
			// looked at: unspecified (DESIGN appendix B).
			all := refAllMessages(sc, out.Sent)
			if len(all) > 0 && all[0] != nil && len(view.Msgs) == 1 && view.Msgs[0] != nil && canonKnown(view.Msgs[0]) == canonKnown(all[0]) && view.ReadErr == "" {
				res.class("fault_behind_first_message_unenveloped_backend")
				return res
			}
		}
		if clientSuccess(cv) && sc.Backend.ReadAfterWrites > 0 {
			// The duplex handler of this case answers per script even though its Read failed. Faults are
			// reported to the handler through Read, whose business it is to fail the RPC (a compliant one
			// does, and then the outcome is asserted); a handler that does not, gets its answer relayed.
			// What is asserted for it is the shape of the response: one end, nothing after it.
			res.class("duplex_handler_ignored_read_error")
		} else if clientSuccess(cv) {
			res.violate("fault_became_success", sig, "request fault %+v (%s) but the client observed OK; backend saw %d messages, read error %q", *f, why, lenMsgs(view), readErr(view))
		}
		// (cv.Ends == 0: the length the handler had announced happens to be the size of the end that was
		// written instead of the payload, so a strict parser takes the end for that payload - the same
		// situation, one coincidence further)
		if sc.Backend.ReadAfterWrites > 0 && formEnveloped(c.Form) && (cv.Incomplete != "" || (cv.Ends == 0 && !clientSuccess(cv))) {
			// The duplex handler was in the middle of a frame (already forwarded on a streaming path) when
			// the request fault ended the RPC: same rule as for a response cut inside a payload (2.1) -
			// not OK, terminated, and what follows the truncated payload is a well-formed end.
			if clientSuccess(cv) {
				res.violate("fault_became_success", sig, "request fault %+v (%s) ended the RPC inside a response frame, yet the client observed OK", *f, why)
			}
			streamingCutEnd(res, sig, c, out, f)
			return res
		}
		for _, p := range framingProblems(cv) {
			res.violate("malformed_error_response", sig+":response", "error response to request fault %+v is not well formed: %s", *f, p)
		}
		if !cv.HTTPLevel && cv.Ends != 1 {
			res.violate("malformed_error_response", sig+":response", "error response to request fault %+v has %d terminal dispositions", *f, cv.Ends)
		}
		if cv.Incomplete != "" {
			res.violate("malformed_error_response", sig+":response", "error response to request fault %+v: body %s", *f, cv.Incomplete)
		}
		if view != nil {
			got := view.Msgs
			unenv := view.Protocol == ProtoREST || (view.Protocol == ProtoConnect && view.Sub != "stream")
			if unenv {
				// complete-looking only if the body ended cleanly and was not empty
				if view.ReadErr != "" || len(view.Body) == 0 {
					got = nil
				}
			}
			if view.Protocol != ProtoREST && view.Sub != "get" {
				// every message the backend got as complete must be the client's message at that index
				all := refAllMessages(sc, out.Sent)
				for i, m := range got {
					if m == nil {
						continue
					}
					if i >= len(all) || all[i] == nil || canonKnown(all[i]) != canonKnown(m) {
						res.violate("partial_message_delivered", sig+":backend", "request fault %+v (%s): backend was handed message %d = %s which the client never completely sent (valid prefix has %d messages)", *f, why, i, msgJSON(m), len(sent))
						break
					}
				}
			}
		}
		return res
	}
	// response direction
	if view == nil {
		res.class("dir=response not_invoked")
		return res
	}
	resp := buildResponse(sc, view)
	applyResponseFault(sc, view, resp)
	produced, valid, why := refResponse(sc, view, resp)
	res.class("dir=response fault=%s valid=%v form=%s target=%s path=%s outcome=%s", f.Kind, valid, c.Form, view.Protocol, path, cv.outcome())
	res.Key = fmt.Sprintf("%s|%s|resp|%s|%d|%d|%s|%s", ct, bt, f.Kind, f.At%7, f.Val, why, sc.Backend.Kind)
	res.NonTrivial = !valid
	res.Sample = map[string]any{"direction": dir, "fault": f, "client": ct, "backend": bt, "reference_says": why, "client_outcome": cv.outcome(), "client_status": cv.Status, "backend_kind": sc.Backend.Kind}
	if valid || path == "passthrough" {
		return res
	}
	if requestFailed(view, out) {
		res.class("request_failed")
		return res
	}
	if clientSuccess(cv) {
		res.violate("fault_became_success", sig, "response fault %+v (%s) but the client observed OK with %d messages", *f, why, len(cv.Msgs))
	}
	streamingCut := formEnveloped(c.Form) && (cv.Incomplete != "" || len(framingProblems(cv)) > 0) &&
		(f.Kind == FaultCut || f.Kind == FaultLenPlus || f.Kind == FaultCLPlus || f.Kind == FaultCLMinus || f.Kind == FaultLenMinus || f.Kind == FaultNoStatus || f.Kind == FaultBitFlip || f.Kind == FaultReplace || f.Kind == FaultSplice)
	if streamingCut {
		// a frame header was already forwarded: require a non-OK strict parse and a well-formed end appended
		streamingCutEnd(res, sig, c, out, f)
		return res
	}
	// what the client got as complete messages must be a prefix of the valid prefix
	backendEnveloped := view.Protocol == ProtoGRPC || view.Protocol == ProtoGRPCWeb || (view.Protocol == ProtoConnect && view.Sub == "stream")
	if formEnveloped(c.Form) && backendEnveloped {
		_ = produced
		var all []proto.Message
		frames, _ := parseFrames(resp.Body)
		comp := resp.Header.Get("Grpc-Encoding") + resp.Header.Get("Connect-Content-Encoding")
		if comp == "identity" {
			comp = ""
		}
		for _, fr := range frames {
			if fr.Flags&^1 != 0 {
				break // end frame (or invalid): nothing behind it counts
			}
			p := fr.Payload
			var m proto.Message
			if fr.Flags == 1 && comp != "" {
				if d, err := decompressBytes(comp, p); err == nil {
					m, _ = decodeMsgLenient(view.Codec, d, view.MI.Out)
				}
			} else if fr.Flags == 0 {
				m, _ = decodeMsgLenient(view.Codec, p, view.MI.Out)
			}
			all = append(all, m)
		}
		for i, m := range cv.Msgs {
			if m == nil {
				continue
			}
			if i >= len(all) || all[i] == nil || canonKnown(all[i]) != canonKnown(m) {
				res.violate("partial_message_delivered", sig+":client", "response fault %+v (%s): client decoded message %d = %s which the handler never completely produced", *f, why, i, msgJSON(m))
				break
			}
		}
	}
	for _, p := range framingProblems(cv) {
		res.violate("malformed_error_response", sig+":response", "error response after response fault %+v is not well formed: %s", *f, p)
	}
	if !cv.HTTPLevel && cv.Ends != 1 {
		res.violate("malformed_error_response", sig+":response", "error response after response fault %+v has %d terminal dispositions", *f, cv.Ends)
	}
	if cv.Incomplete != "" {
		res.violate("malformed_error_response", sig+":response", "error response after response fault %+v: body %s", *f, cv.Incomplete)
	}
	return res
}

// contentProblem: the client could frame the response but a payload does not
// inflate/decode. On paths that forward payload bytes without looking inside
// (same codec and compression) this is how a corrupt payload surfaces: the
// client's own codec reports the error.
func contentProblem(p string) bool {
	return strings.Contains(p, "does not decode") || strings.Contains(p, "does not inflate")
}

// clientSuccess: a client library would hand the application a successful result.
func clientSuccess(cv *ClientView) bool {
	if !cv.OK {
		return false
	}
	for _, m := range cv.Msgs {
		if m == nil {
			return false
		}
	}
	for _, p := range cv.Problems {
		if contentProblem(p) {
			return false
		}
	}
	return true
}

func framingProblems(cv *ClientView) []string {
	var out []string
	for _, p := range cv.Problems {
		if !contentProblem(p) {
			out = append(out, p)
		}
	}
	return out
}

func lenMsgs(v *BackendView) int {
	if v == nil {
		return -1
	}
	return len(v.Msgs)
}

func readErr(v *BackendView) string {
	if v == nil {
		return ""
	}
	return v.ReadErr
}

// requestFailed: the backend could not obtain the request as sent (read error,
// fewer messages, or an undecodable one); a compliant server fails such an RPC
// itself, so its scripted answer is not what the client sees.
func requestFailed(view *BackendView, out *Outcome) bool {
	if view.ReadErr != "" || len(view.Msgs) < len(out.Sent.Msgs) {
		return true
	}
	for _, m := range view.Msgs {
		if m == nil {
			return true
		}
	}
	return false
}


// streamingCutEnd: after a payload that was cut on a streaming path the bytes (or trailers) that
// follow must be a well-formed, single, non-OK end for the client's protocol.
func streamingCutEnd(res *CheckResult, sig string, c *Client, out *Outcome, f *Fault) {
	switch c.Form {
	case FormGRPC:
		_, e, ps := parseGRPCStatus(out.Trailers)
		if e == nil || len(ps) > 0 {
			if inHead, he, hp := parseGRPCStatus(out.Rec.Head); !inHead || he == nil || len(hp) > 0 {
				res.violate("malformed_error_response", sig+":response", "after fault %+v the gRPC client has no single non-OK status (trailers %s)", *f, headerString(out.Trailers))
			}
		}
	default:
		if !tailHasWellFormedEnd(c.Form, out.Rec.Body.Bytes()) {
			res.violate("malformed_error_response", sig+":response", "after fault %+v no well-formed end follows the truncated payload", *f)
		}
	}
	res.class("streaming_cut")
}
