package verifbench

import (
	"os"
	"fmt"
	"net/http"
	"strings"
	"testing"

	"pgregory.net/rapid"
)

// C13 - pass-through and unknown-endpoint requests are forwarded untouched.

const ruleC13 = "rapid draws (a) requests whose protocol, codec and compression the service accepts (so no conversion is needed) and (b) requests for paths no configured endpoint matches with an unknown-endpoint handler installed; with arbitrary extra headers (including other protocols' control headers), query strings, bodies (including bytes that are not valid for the protocol), declared or undeclared Content-Length, HTTP/1.1 and HTTP/2, and handlers answering with arbitrary status/headers/body/trailers and write patterns. Oracle: field-by-field comparison of the request as given to ServeHTTP with what the downstream handler observed (method, every URL field, Proto*, Host, RequestURI, deep header map, ContentLength, TransferEncoding, body bytes) and of the handler's response with what the client's writer received. Non-trivial = the request carries a header the transcoder strips during validation, or a declared Content-Length; distinct by hash(kind, form, headers, length mode, body)."

func init() { registerScenarioProp("C13", ruleC13, checkC13) }

var strippedHeaderPool = []KV{
	{"Accept-Encoding", "gzip, br"}, {"Connect-Protocol-Version", "1"}, {"Grpc-Accept-Encoding", "gzip"}, {"Connect-Accept-Encoding", "gzip"},
	{"Te", "trailers"}, {"X-Server-Timeout", "5"}, {"Connect-Timeout-Ms", "5000"}, {"Grpc-Timeout", "5S"}, {"X-Custom", "v"}, {"Authorization", "Bearer x"},
	{"Trailer", "X-Foo"}, {"User-Agent", "bench/1"}, {"X-Multi", "a"}, {"X-Multi", "b"}, {"Accept", "*/*"}, {"Cookie", "a=b; c=d"},
}

func TestC13(t *testing.T) {
	rapid.Check(t, func(t *rapid.T) {
		o := genOpts{maxBlob: 16, noText: true, backendKinds: []string{"ok", "ok", "error", "http_status", "raw"}, segmentation: rapid.Bool().Draw(t, "use_segmentation")}
		sc := genScenario(t, o)
		c := &sc.Client
		unknown := rapid.IntRange(0, 2).Draw(t, "unknown_endpoint") == 0
		lateUnknown := unknown && c.Form != FormREST && c.Form != FormConnectGet && rapid.IntRange(0, 2).Draw(t, "late_unknown") == 0
		if lateUnknown {
			// "no such endpoint" decided after validation: the service only offers REST and the
			// method has no HTTP rule, so the request is delegated to the unknown-endpoint handler
			sc.Config.Unknown = true
			sc.Config.Protocols = []string{ProtoREST}
			sc.Note = "unknown"
			switch c.Form {
			case FormConnectUnary:
				c.Method = rapid.SampledFrom([]string{"UnaryPlain", "UnaryIdem"}).Draw(t, "norule_unary")
			case FormConnectStream:
				c.Method = rapid.SampledFrom([]string{"ClientStream", "ServerStream", "Bidi"}).Draw(t, "norule_stream")
				c.HTTP2 = true
			default:
				c.Method = rapid.SampledFrom([]string{"UnaryPlain", "UnaryIdem", "ClientStream", "ServerStream"}).Draw(t, "norule_any")
			}
			if len(c.Msgs) != 1 {
				c.Msgs = [][]byte{{}}
				c.MsgRaw = nil
			}
			sc.Backend.Msgs = nil
		} else if unknown {
			sc.Config.Unknown = true
			sc.Note = "unknown"
			c.TargetOverride = rapid.SampledFrom([]string{"/nothing/here", "/verif.v1.Bench/Nope", "/verif.v1.Other/Unary", "/", "/v1/unary/extra/segment", "/v9/unknown?x=1&y=%20z", "/a%2Fb/c%20d?q=%41", "//double//slash", "/verif.v1.Bench/Unary/", "/v1/get"}).Draw(t, "unknown_target")
			if rapid.Bool().Draw(t, "garbage_body") {
				c.UseRaw = true
				c.RawMethod = rapid.SampledFrom([]string{"POST", "GET", "PUT", "DELETE", "OPTIONS", "PATCH", "HEAD"}).Draw(t, "raw_method")
				c.RawTarget = c.TargetOverride
				c.RawHeader = []KV{{"Content-Type", rapid.SampledFrom([]string{"application/grpc", "application/json", "text/plain", "application/connect+proto", "application/grpc-web+json", "application/x-www-form-urlencoded"}).Draw(t, "raw_ct")}}
				if c.RawMethod != "GET" && c.RawMethod != "HEAD" {
					c.RawBody = rapid.SliceOfN(rapid.Byte(), 0, 64).Draw(t, "raw_body")
				}
			}
		} else {
			sc.Note = "passthrough"
			// make the client's own triple acceptable
			sc.Config.Protocols = appendUnique(sc.Config.Protocols, formProtocol(c.Form))
			sc.Config.Codecs = appendUnique(sc.Config.Codecs, c.Codec)
			if c.Compression != "" {
				sc.Config.Compressions = appendUnique(sc.Config.Compressions, c.Compression)
			}
			if c.Form == FormREST && rapid.Bool().Draw(t, "rest_query_extra") {
				// nothing: REST requests are rendered by the reference renderer
			}
		}
		n := rapid.IntRange(0, 4).Draw(t, "extra_headers")
		for i := 0; i < n; i++ {
			kv := rapid.SampledFrom(strippedHeaderPool).Draw(t, "extra_header")
			if (kv.K == "Connect-Protocol-Version" && formProtocol(c.Form) == ProtoConnect) || (kv.K == "Te" && c.Form == FormGRPC) {
				continue // the form sends this single-valued header itself; a second field line makes the request malformed
			}
			if c.UseRaw {
				c.RawHeader = append(c.RawHeader, kv)
			} else {
				c.Headers = append(c.Headers, kv)
			}
		}
		c.DeclareCL = rapid.Bool().Draw(t, "declare_cl2")
		if sc.Backend.Kind == "raw" || unknown {
			b := &sc.Backend
			b.HTTPStatus = rapid.SampledFrom([]int{200, 200, 201, 204, 301, 400, 404, 418, 500, 503}).Draw(t, "raw_status")
			b.RawCT = rapid.SampledFrom([]string{"", "text/plain", "application/json", "application/grpc", "application/octet-stream"}).Draw(t, "raw_resp_ct")
			if b.HTTPStatus != 204 && b.HTTPStatus != 304 {
				b.RawBody = rapid.SliceOfN(rapid.Byte(), 0, 80).Draw(t, "raw_resp_body")
			}
			b.RawHeaders = genHeaderKVs(t, "raw_resp_hdr", 3)
			b.Kind = "raw"
			fixTrailerStyle(b)
		}
		judge(t, "C13", sc, checkC13(sc))
	})
}

func appendUnique(list []string, s string) []string {
	if contains(list, s) {
		return list
	}
	return append(list, s)
}

func checkC13(sc *Scenario) *CheckResult {
	res := &CheckResult{}
	out := runScenario(sc)
	if out.BuildErr != "" || out.ConfigErr != "" {
		res.Skipped = true
		return res
	}
	if panicViolation(res, out) {
		return res
	}
	c := &sc.Client
	var view *BackendView
	kind := sc.Note
	switch kind {
	case "unknown":
		view = out.Unknown
		if out.Invocations > 0 {
			res.class("unknown_target_matched_a_method")
			res.Skipped = true
			return res
		}
	default:
		view = out.Backend
	}
	stripped := false
	hdrs := c.Headers
	if c.UseRaw {
		hdrs = c.RawHeader
	}
	for _, kv := range hdrs {
		switch http.CanonicalHeaderKey(kv.K) {
		case "Accept-Encoding", "Connect-Protocol-Version", "Grpc-Accept-Encoding", "Connect-Accept-Encoding", "Te", "Connect-Timeout-Ms", "Grpc-Timeout":
			stripped = true
		}
	}
	res.NonTrivial = stripped || out.Snapshot.ContentLength > 0
	res.Key = fmt.Sprintf("%s|%s|%v|%v|%d|%x|%s", kind, c.Form, hdrs, c.DeclareCL, out.Snapshot.ContentLength, out.Sent.Body, out.Sent.Target)
	res.class("kind=%s form=%s invoked=%v", kind, c.Form, view != nil)
	res.Sample = map[string]any{"kind": kind, "request": out.Sent.Method + " " + out.Sent.Target, "headers": hdrs, "content_length": out.Snapshot.ContentLength, "http2": c.HTTP2, "body_len": len(out.Sent.Body)}
	if view == nil {
		if kind == "unknown" {
			// e.g. unclassifiable content-type is rejected before routing: only requests that reach
			// the "no such endpoint" decision are delegated
			res.class("unknown_not_delegated status=%d", out.Client.Status)
			if out.Client.Status != 415 {
				// (415: a content-type that names no protocol at all is refused before any routing)
				res.violate("not_delegated", "c13:not_delegated", "no endpoint matches %s %s, an unknown-endpoint handler is installed, yet the transcoder answered %d itself", out.Sent.Method, out.Sent.Target, out.Client.Status)
			}
			return res
		}
		res.class("passthrough_not_invoked status=%d", out.Client.Status)
		if !stripped && !restTargetUnroutable(sc) && sc.Client.Fault == nil && !c.UseRaw {
			// a request in a form, codec and compression the service accepts, without any header of another
			// protocol that could make it ambiguous: it has to reach the handler
			res.violate("not_passed", "c13:not_passed", "the service accepts %s %s as it is, yet no handler was invoked: HTTP %d", c.Form, out.Sent.Target, out.Client.Status)
		}
		if os.Getenv("VERIF_C13_DEBUG") != "" {
			res.class("DBG status=%d form=%s method=%s ct=%q protos=%v http2=%v", out.Client.Status, c.Form, c.Method, headerOf(out.Sent.Header, "Content-Type"), sc.Config.Protocols, c.HTTP2)
		}
		return res
	}
	if kind == "passthrough" {
		ct := clientTriple(c, out.Sent)
		if ct != view.triple() {
			res.violate("converted", "c13:converted", "service accepts the client's %s but the handler received %s", ct, view.triple())
			return res
		}
	}
	// request: everything the client sent, unchanged
	for _, d := range out.Snapshot.diff(view.Snap) {
		res.violate("request_changed", "c13:request:"+strings.SplitN(d, ":", 2)[0], "%s request altered: %s", kind, d)
	}
	want := out.Sent.Body
	if out.Sent.BodyErr == nil && string(view.Body) != string(want) {
		res.violate("body_changed", "c13:request:body", "%s request body altered: client sent %d bytes, handler read %d bytes", kind, len(want), len(view.Body))
	}
	// response: what the handler wrote, unchanged
	var resp *builtResponse
	if kind == "unknown" {
		b := &sc.Backend
		resp = &builtResponse{Status: b.HTTPStatus, Header: http.Header{}, Trailer: kvHeader(b.Trailers), Body: append([]byte(nil), b.RawBody...)}
		if resp.Status == 0 {
			resp.Status = 200
		}
		for _, kv := range b.Headers {
			resp.Header.Add(kv.K, kv.V)
		}
		for _, kv := range b.RawHeaders {
			resp.Header.Add(kv.K, kv.V)
		}
		if b.RawCT != "" {
			resp.Header.Set("Content-Type", b.RawCT)
		}
	} else {
		if requestFailed(view, out) {
			return res
		}
		resp = buildResponse(sc, view)
		for _, o := range sc.Backend.Override {
			resp.Header.Del(o.K)
			if o.V != "" {
				resp.Header.Set(o.K, o.V)
			}
		}
	}
	if out.Rec.Status != resp.Status {
		res.violate("response_changed", "c13:response:status", "%s: handler answered %d, client received %d", kind, resp.Status, out.Rec.Status)
	}
	if resp.Status != 204 && resp.Status != 304 && out.Rec.Body.String() != string(resp.Body) {
		res.violate("response_changed", "c13:response:body", "%s: handler wrote %d body bytes, client received %d (or different bytes)", kind, len(resp.Body), out.Rec.Body.Len())
	}
	for k, v := range resp.Header {
		if strings.Join(out.Rec.Head[k], "\x00") != strings.Join(v, "\x00") {
			res.violate("response_changed", "c13:response:header", "%s: handler set header %s=%q, client received %q", kind, k, v, out.Rec.Head[k])
		}
	}
	for k := range out.Rec.Head {
		if _, ok := resp.Header[k]; !ok && k != "Trailer" && k != "Content-Length" {
			res.violate("response_changed", "c13:response:header", "%s: client received header %s=%q which the handler never set", kind, k, out.Rec.Head[k])
		}
	}
	for k, v := range resp.Trailer {
		if strings.Join(out.Trailers[k], "\x00") != strings.Join(v, "\x00") {
			res.violate("response_changed", "c13:response:trailer", "%s: handler set trailer %s=%q, client received %q", kind, k, v, out.Trailers[k])
		}
	}
	for k := range out.Trailers {
		if _, ok := resp.Trailer[k]; !ok {
			res.violate("response_changed", "c13:response:trailer", "%s: client received trailer %s=%q which the handler never set", kind, k, out.Trailers[k])
		}
	}
	return res
}
