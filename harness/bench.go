package verifbench

// The bench: Scenario -> execution against a real vanguard.Transcoder ->
// observation (DESIGN.md 1.2). In-memory driver: the request is built by
// http.ReadRequest from HTTP/1.1 text, the response goes to a recording
// ResponseWriter that mimics net/http's header-snapshot and trailer rules.

import (
	"compress/gzip"
	"golang.org/x/net/http/httpguts"
	"bufio"
	"bytes"
	"compress/zlib"
	"context"
	"errors"
	"fmt"
	"io"
	"net/http"
	"runtime"
	"runtime/debug"
	"sort"
	"strconv"
	"strings"
	"sync"
	"sync/atomic"
	"time"

	"connectrpc.com/connect"
	"connectrpc.com/vanguard"
	"google.golang.org/genproto/googleapis/api/annotations"
	"google.golang.org/protobuf/encoding/prototext"
	"google.golang.org/protobuf/proto"
	"google.golang.org/protobuf/reflect/protoregistry"
)

// ---- scenario -----------------------------------------------------------------

type Config struct {
	Protocols    []string   `json:"protocols"`              // target protocols of the service
	Codecs       []string   `json:"codecs"`                 // target codecs, first is preferred
	Compressions []string   `json:"compressions"`           // target compressions (may be empty)
	MaxMsg       uint32     `json:"max_msg,omitempty"`      // 0: leave the default
	MaxGetURL    uint32     `json:"max_get_url,omitempty"`  // 0: leave the default
	ViaDefaults  bool       `json:"via_defaults,omitempty"` // options supplied through WithDefaultServiceOptions
	GlobalTypes  bool       `json:"global_types,omitempty"` // WithTypeResolver(protoregistry.GlobalTypes)
	Unknown      bool       `json:"unknown,omitempty"`      // install an unknown-endpoint handler
	DiscardQuery bool       `json:"discard_query,omitempty"`
	Rules        []RuleSpec `json:"rules,omitempty"` // WithRules
	WithRoute    bool       `json:"with_route,omitempty"`
	// OtherOpts: the Route service is registered with these options of its own (instead of the
	// ones above) - a second, differently configured service whose options must not leak.
	OtherOpts  *OtherOptions `json:"other_opts,omitempty"`
	OtherFirst bool          `json:"other_first,omitempty"` // register it before the Bench service
	// DefaultCompression: no compression option is given for the Bench service at all; Compressions then
	// states the library default (gzip), which is what the service must behave as configured with.
	DefaultCompression bool `json:"default_compression,omitempty"`
}

type OtherOptions struct {
	Protocols    []string `json:"protocols,omitempty"`
	Codecs       []string `json:"codecs,omitempty"`
	Compressions []string `json:"compressions"`
	NoCompress   bool     `json:"no_compress,omitempty"`
	MaxMsg       uint32   `json:"max_msg,omitempty"`
	EmptyTypes   bool     `json:"empty_types,omitempty"` // WithTypeResolver(a resolver that knows no type): Any payloads of this service cannot be expanded
}

func (o *OtherOptions) options() []vanguard.ServiceOption {
	comp := o.Compressions
	if o.NoCompress {
		comp = nil // WithNoTargetCompression is then the only compression option this service gets
	}
	so := serviceOptions(Config{Protocols: o.Protocols, Codecs: o.Codecs, Compressions: comp, MaxMsg: o.MaxMsg})
	if o.NoCompress {
		so = append(so, vanguard.WithNoTargetCompression())
	}
	if o.EmptyTypes {
		so = append(so, vanguard.WithTypeResolver(emptyResolver{}))
	}
	return so
}

type Fault struct {
	Kind string `json:"kind"` // see fault.go
	At   int    `json:"at,omitempty"`
	Val  int    `json:"val,omitempty"`
	Data []byte `json:"data,omitempty"` // replace / splice
}

type Client struct {
	Form        string    `json:"form"`
	HTTP2       bool      `json:"http2,omitempty"`
	Service     string    `json:"service,omitempty"` // default Bench
	Method      string    `json:"method"`
	Binding     int       `json:"binding,omitempty"` // REST: index into the method's flat binding list
	Codec       string    `json:"codec"`
	JSON        JSONStyle `json:"json_style,omitempty"`
	Param       ParamStyle `json:"param_style,omitempty"`
	Compression string    `json:"compression,omitempty"`
	Identity    bool      `json:"identity,omitempty"` // no compression, but say so explicitly ("identity")
	Accept      []string  `json:"accept,omitempty"`
	Msgs        [][]byte  `json:"msgs"`                    // proto-encoded request messages
	MsgRaw      []bool    `json:"msg_raw,omitempty"`       // per message: send uncompressed although compression is declared
	Headers     []KV      `json:"headers,omitempty"`       // application headers
	Timeout     string    `json:"timeout,omitempty"`       // raw value of the form's timeout header
	DeclareCL   bool      `json:"declare_cl,omitempty"`    // send Content-Length
	ReadSplits  []int     `json:"read_splits,omitempty"`   // sizes of successive Read results
	EOFWithData bool      `json:"eof_with_data,omitempty"` // final Read returns (n, io.EOF)
	ReadChunk   int       `json:"read_chunk,omitempty"`    // cap on every Read result once the splits are used up
	NoVersion   bool      `json:"no_version,omitempty"`    // connect GET: omit connect=v1 ... (only robustness)
	GetBase64   bool      `json:"get_base64,omitempty"`    // connect GET: base64 even for text codecs
	GetPadded   bool      `json:"get_padded,omitempty"`
	BareContentType  bool `json:"bare_content_type,omitempty"` // gRPC / gRPC-Web with the proto codec: "application/grpc[-web]" without "+proto"
	GetVersionHeader bool `json:"get_version_header,omitempty"` // connect GET: also send Connect-Protocol-Version: 1
	Fault       *Fault    `json:"fault,omitempty"`
	// raw overrides (robustness / pass-through scenarios)
	RawMethod string `json:"raw_method,omitempty"`
	RawTarget string `json:"raw_target,omitempty"` // request-target (path?query)
	RawHeader []KV   `json:"raw_header,omitempty"`
	RawBody   []byte `json:"raw_body,omitempty"`
	UseRaw    bool   `json:"use_raw,omitempty"`
	ExtraQuery []KV `json:"extra_query,omitempty"` // REST: appended to the rendered query string (already decoded form)
	// Override replaces (or, with an empty value, removes) headers after encoding.
	Override       []KV   `json:"override,omitempty"`
	TargetOverride string `json:"target_override,omitempty"` // replaces the request-target
	MethodOverride string `json:"method_override,omitempty"` // replaces the HTTP method
}

type Backend struct {
	ReadBuf      []int    `json:"read_buf,omitempty"` // buffer sizes for successive Body.Read calls (cycled); empty: 32 KiB
	Kind         string   `json:"kind"`               // ok | error | trailers_only | http_status | raw
	Msgs         [][]byte `json:"msgs,omitempty"`     // proto-encoded response messages
	MsgRaw       []bool   `json:"msg_raw,omitempty"`
	Compress     bool     `json:"compress,omitempty"` // compress the response if the request allows one
	Hostile      bool     `json:"hostile,omitempty"`
	Headers      []KV     `json:"headers,omitempty"`
	Trailers     []KV     `json:"trailers,omitempty"`
	TrailerStyle string   `json:"trailer_style,omitempty"` // declared | prefixed
	Err          *ErrSpec `json:"err,omitempty"`
	CodeRaw      string   `json:"code_raw,omitempty"` // non-numeric / out-of-range grpc-status text
	PadDetails   bool     `json:"pad_details,omitempty"`
	DeclareCL    bool     `json:"declare_cl,omitempty"`
	WriteSplits  []int    `json:"write_splits,omitempty"` // sizes of successive Write calls (then the rest)
	FlushEvery   int      `json:"flush_every,omitempty"`
	EmptyWrites  bool     `json:"empty_writes,omitempty"`
	HTTPStatus   int      `json:"http_status,omitempty"`
	RawCT        string   `json:"raw_ct,omitempty"`
	RawBody      []byte   `json:"raw_body,omitempty"`
	RawHeaders   []KV     `json:"raw_headers,omitempty"`
	Panic        bool     `json:"panic,omitempty"`
	Fault        *Fault   `json:"fault,omitempty"`
	ReadFirst    int      `json:"read_first,omitempty"` // respond after reading only this many bytes (0: read all)
	WriteAfter   bool     `json:"write_after,omitempty"` // keep writing after the end
	Override     []KV     `json:"override,omitempty"`    // replaces / removes response headers after building
	WriteChunk   int      `json:"write_chunk,omitempty"` // cap on every Write once the splits are used up
	ExplicitHead bool     `json:"explicit_head,omitempty"`
	IgnoreReadErr bool    `json:"ignore_read_err,omitempty"` // answer per script even if reading the request failed
	CloseBody     bool    `json:"close_body,omitempty"`      // call Request.Body.Close() after reading, before answering (as proxies do)
	CloseAfterWrites int  `json:"close_after_writes,omitempty"` // with CloseBody: close only after this many response Write calls
	IdentityHeader bool   `json:"identity_header,omitempty"` // an uncompressed response states "identity" in the protocol's encoding header
	EarlyHeaders  bool    `json:"early_headers,omitempty"`   // the handler puts its protocol's response headers (content type, encodings) into the header map before it reads the request, as connect-go's handlers do
	CloseAgain    bool    `json:"close_again,omitempty"`     // with CloseBody: the body is closed once more when the handler has returned (net/http's server does that for every request)
	CompressError    bool   `json:"compress_error,omitempty"` // Connect unary: the error JSON body is sent compressed, too
	CompressEnd      bool   `json:"compress_end,omitempty"`  // gRPC-Web trailer frame / Connect end-of-stream frame sent compressed (flag bit 0)
	TrailerCase      string `json:"trailer_case,omitempty"`  // spelling of the names in the Trailer announcement: "" canonical | lower | mixed | upper
	TrailerOneLine   bool   `json:"trailer_one_line,omitempty"` // declared style: one "Trailer: a, b, c" line instead of one line per name
	CompactTrailers  bool   `json:"compact_trailers,omitempty"` // gRPC-Web trailer frame lines as "name:value" (no space after the colon)
	OKMessage        string `json:"ok_message,omitempty"`    // gRPC family: grpc-message sent next to grpc-status 0 (some servers do)
	WritePerFrame    bool `json:"write_per_frame,omitempty"`    // one Write per frame of an enveloped response body (before chunking)
	ReadAfterWrites  int  `json:"read_after_writes,omitempty"`  // full-duplex handler: reads the request only after this many response Write calls (0: reads first), and answers per script whatever the read yields
}

type Scenario struct {
	Config  Config  `json:"config"`
	Client  Client  `json:"client"`
	Backend Backend `json:"backend"`
	Note    string  `json:"note,omitempty"`
}

func (c *Client) service() string {
	if c.Service == "" {
		return benchService
	}
	return c.Service
}

// ---- building the transcoder ---------------------------------------------------

type textCodec struct{}

func (textCodec) Name() string { return CodecText }
func (textCodec) MarshalAppend(base []byte, msg proto.Message) ([]byte, error) {
	return prototext.MarshalOptions{}.MarshalAppend(base, msg)
}
func (textCodec) Unmarshal(data []byte, msg proto.Message) error {
	return prototext.Unmarshal(data, msg)
}

func protoConst(p string) vanguard.Protocol {
	switch p {
	case ProtoConnect:
		return vanguard.ProtocolConnect
	case ProtoGRPC:
		return vanguard.ProtocolGRPC
	case ProtoGRPCWeb:
		return vanguard.ProtocolGRPCWeb
	case ProtoREST:
		return vanguard.ProtocolREST
	}
	return vanguard.Protocol(99)
}

func serviceOptions(cfg Config) []vanguard.ServiceOption {
	var so []vanguard.ServiceOption
	if cfg.Protocols != nil {
		ps := make([]vanguard.Protocol, len(cfg.Protocols))
		for i, p := range cfg.Protocols {
			ps[i] = protoConst(p)
		}
		so = append(so, vanguard.WithTargetProtocols(ps...))
	}
	if cfg.Codecs != nil {
		so = append(so, vanguard.WithTargetCodecs(cfg.Codecs...))
	}
	// (the flag only stands while the list still states the default; a check that edits the list afterwards
	// gets an explicit option)
	if cfg.Compressions != nil && !(cfg.DefaultCompression && len(cfg.Compressions) == 1 && cfg.Compressions[0] == CompGzip) {
		so = append(so, vanguard.WithTargetCompression(cfg.Compressions...))
	}
	if cfg.MaxMsg != 0 {
		so = append(so, vanguard.WithMaxMessageBufferBytes(cfg.MaxMsg))
	}
	if cfg.MaxGetURL != 0 {
		so = append(so, vanguard.WithMaxGetURLBytes(cfg.MaxGetURL))
	}
	if cfg.GlobalTypes {
		so = append(so, vanguard.WithTypeResolver(protoregistry.GlobalTypes))
	}
	if cfg.DiscardQuery {
		so = append(so, vanguard.WithRESTUnmarshalOptions(vanguard.RESTUnmarshalOptions{DiscardUnknownQueryParams: true}))
	}
	return so
}

func transcoderBaseOptions() []vanguard.TranscoderOption {
	return []vanguard.TranscoderOption{
		vanguard.WithCodec(func(vanguard.TypeResolver) vanguard.Codec { return textCodec{} }),
		vanguard.WithCompression(CompDeflate,
			func() connect.Compressor { return &trackedComp{inner: zlib.NewWriter(io.Discard), name: CompDeflate} },
			func() connect.Decompressor { return &trackedDecomp{inner: &zlibDecomp{}, name: CompDeflate} }),
		// gzip with the same objects vanguard uses by default, wrapped for bookkeeping
		vanguard.WithCompression(CompGzip,
			func() connect.Compressor { return &trackedComp{inner: gzip.NewWriter(io.Discard), name: CompGzip} },
			func() connect.Decompressor { return &trackedDecomp{inner: &gzip.Reader{}, name: CompGzip} }),
	}
}

// ---- bookkeeping (de)compressors ---------------------------------------------------
// Vanguard pools compressor and decompressor objects. An object is "in use" from Reset until Close
// (or until a Read/Write fails, after which vanguard returns it without closing). An object that is
// Reset while in use has been handed to two requests at once (e.g. it sits in the pool twice).

var compMisuse struct {
	mu    sync.Mutex
	notes []string
}

func noteCompMisuse(f string, a ...any) {
	compMisuse.mu.Lock()
	if len(compMisuse.notes) < 20 {
		compMisuse.notes = append(compMisuse.notes, fmt.Sprintf(f, a...))
	}
	compMisuse.mu.Unlock()
}

// takeCompMisuse returns and clears what was noted since the last call.
func takeCompMisuse() []string {
	compMisuse.mu.Lock()
	defer compMisuse.mu.Unlock()
	out := compMisuse.notes
	compMisuse.notes = nil
	return out
}

type trackedDecomp struct {
	inner connect.Decompressor
	busy  int32
	name  string
}

func (d *trackedDecomp) Reset(r io.Reader) error {
	if !atomic.CompareAndSwapInt32(&d.busy, 0, 1) {
		noteCompMisuse("a %s decompressor was handed out (Reset) while another use of it had not finished", d.name)
	}
	err := d.inner.Reset(r)
	if err != nil {
		atomic.StoreInt32(&d.busy, 0)
	}
	return err
}

// compStretch (C14 only) makes every decompressor Read yield the processor first, so that two
// requests which were wrongly given the same object do overlap in time.
var compStretch int32

func (d *trackedDecomp) Read(p []byte) (int, error) {
	if atomic.LoadInt32(&compStretch) != 0 {
		time.Sleep(20 * time.Microsecond)
	}
	n, err := d.inner.Read(p)
	if err != nil {
		atomic.StoreInt32(&d.busy, 0)
	}
	return n, err
}

func (d *trackedDecomp) Close() error {
	atomic.StoreInt32(&d.busy, 0)
	return d.inner.Close()
}

type trackedComp struct {
	inner connect.Compressor
	busy  int32
	name  string
}

func (c *trackedComp) Reset(w io.Writer) {
	if !atomic.CompareAndSwapInt32(&c.busy, 0, 1) {
		noteCompMisuse("a %s compressor was handed out (Reset) while another use of it had not finished", c.name)
	}
	c.inner.Reset(w)
}

func (c *trackedComp) Write(p []byte) (int, error) {
	n, err := c.inner.Write(p)
	if err != nil {
		atomic.StoreInt32(&c.busy, 0)
	}
	return n, err
}

func (c *trackedComp) Close() error {
	atomic.StoreInt32(&c.busy, 0)
	return c.inner.Close()
}

func buildTranscoder(cfg Config, handler http.Handler, unknown http.Handler) (*vanguard.Transcoder, error) {
	s := schema()
	so := serviceOptions(cfg)
	topts := transcoderBaseOptions()
	var svcs []*vanguard.Service
	routeOpts := so
	if cfg.ViaDefaults {
		routeOpts = nil
	}
	if cfg.OtherOpts != nil {
		routeOpts = cfg.OtherOpts.options()
	}
	if cfg.ViaDefaults {
		topts = append(topts, vanguard.WithDefaultServiceOptions(so...))
		svcs = append(svcs, vanguard.NewServiceWithSchema(s.bench, handler))
	} else {
		svcs = append(svcs, vanguard.NewServiceWithSchema(s.bench, handler, so...))
	}
	if cfg.WithRoute || cfg.OtherOpts != nil {
		route := vanguard.NewServiceWithSchema(s.route, handler, routeOpts...)
		if cfg.OtherFirst {
			svcs = append([]*vanguard.Service{route}, svcs...)
		} else {
			svcs = append(svcs, route)
		}
	}
	if len(cfg.Rules) > 0 {
		rules := make([]*annotations.HttpRule, len(cfg.Rules))
		for i, r := range cfg.Rules {
			rules[i] = r.toProto()
		}
		topts = append(topts, vanguard.WithRules(rules...))
	}
	if cfg.Unknown && unknown != nil {
		topts = append(topts, vanguard.WithUnknownHandler(unknown))
	}
	return vanguard.NewTranscoder(svcs, topts...)
}

// ---- scripted request body -------------------------------------------------------

type scriptBody struct {
	mu          sync.Mutex
	data        []byte
	splits      []int
	pos         int
	splitIdx    int
	chunk       int
	eofWithData bool
	finalErr    error // returned instead of io.EOF at the end (e.g. unexpected EOF)
	closed      bool
	reads       int
	readsAfterDone int32
	done        *int32 // set to 1 when ServeHTTP has returned
	maxPos      int
}

func (b *scriptBody) Read(p []byte) (int, error) {
	b.mu.Lock()
	defer b.mu.Unlock()
	if b.done != nil && atomic.LoadInt32(b.done) == 1 {
		atomic.AddInt32(&b.readsAfterDone, 1)
	}
	b.reads++
	if b.closed {
		return 0, errors.New("http: invalid Read on closed Body")
	}
	end := b.finalErr
	if end == nil {
		end = io.EOF
	}
	if b.pos >= len(b.data) {
		return 0, end
	}
	if len(p) == 0 {
		return 0, nil
	}
	n := len(b.data) - b.pos
	if b.chunk > 0 && n > b.chunk {
		n = b.chunk
	}
	if b.splitIdx < len(b.splits) {
		if s := b.splits[b.splitIdx]; s > 0 && s < n {
			n = s
		}
	}
	if n > len(p) {
		n = len(p)
		if b.splitIdx < len(b.splits) && b.splits[b.splitIdx] > 0 {
			b.splits[b.splitIdx] -= n
		}
	} else {
		b.splitIdx++
	}
	copy(p, b.data[b.pos:b.pos+n])
	b.pos += n
	if b.pos > b.maxPos {
		b.maxPos = b.pos
	}
	if b.pos >= len(b.data) && b.eofWithData {
		return n, end
	}
	return n, nil
}

func (b *scriptBody) Close() error {
	b.mu.Lock()
	defer b.mu.Unlock()
	b.closed = true
	return nil
}

// ---- recording response writer ----------------------------------------------------

type Event struct {
	Kind string // "header", "write", "flush"
	N    int
}

type Recorder struct {
	mu           sync.Mutex
	live         http.Header
	Wrote        bool
	Status       int
	Head         http.Header // snapshot at first WriteHeader/Write
	Body         bytes.Buffer
	Events       []Event
	Anomalies    []string
	Notes        []string // what the driver did where net/http would (omitted header values, ...)
	HTTP2        bool
	Informational []int
	done         *int32
	callsAfterDone int32
	declaredCL   int64
	onWrite      func(total int) // hook for progress checks (C16)
	onFlush      func(total int)
}

func newRecorder(done *int32) *Recorder {
	return &Recorder{live: http.Header{}, done: done, declaredCL: -1}
}

func (r *Recorder) after() {
	if r.done != nil && atomic.LoadInt32(r.done) == 1 {
		atomic.AddInt32(&r.callsAfterDone, 1)
	}
}

func (r *Recorder) Header() http.Header {
	r.after()
	return r.live
}

func (r *Recorder) WriteHeader(code int) {
	r.after()
	r.mu.Lock()
	defer r.mu.Unlock()
	r.writeHeaderLocked(code)
}

func (r *Recorder) writeHeaderLocked(code int) {
	if r.Wrote {
		r.Anomalies = append(r.Anomalies, fmt.Sprintf("superfluous WriteHeader(%d) after status %d", code, r.Status))
		return
	}
	if code < 100 || code > 999 {
		r.Anomalies = append(r.Anomalies, fmt.Sprintf("invalid WriteHeader code %d (net/http panics)", code))
		// net/http would panic here; record and treat as the response head so the run can continue
	}
	if code >= 100 && code <= 199 && code != 101 {
		r.Informational = append(r.Informational, code)
		return
	}
	r.Wrote = true
	r.Status = code
	r.Head = http.Header{}
	for k, v := range r.live {
		if strings.HasPrefix(k, http.TrailerPrefix) {
			continue
		}
		if vals := r.transmittable(k, v); len(vals) > 0 {
			// field names are case-insensitive on the wire; a client sees them in canonical form
			ck := http.CanonicalHeaderKey(k)
			r.Head[ck] = append(r.Head[ck], vals...)
		}
	}
	if cl := r.Head.Get("Content-Length"); cl != "" {
		var n int64
		if v, err := strconv.ParseInt(cl, 10, 64); err == nil && v >= 0 {
			n = v
			r.declaredCL = n
		} else {
			// net/http logs "invalid Content-Length" and drops the header
			r.Head.Del("Content-Length")
		}
	}
	r.Events = append(r.Events, Event{Kind: "header", N: code})
}

func (r *Recorder) Write(p []byte) (int, error) {
	r.after()
	n, err, total := r.writeLocked(p)
	if err == nil && r.onWrite != nil {
		r.onWrite(total) // outside the lock
	}
	return n, err
}

func (r *Recorder) writeLocked(p []byte) (int, error, int) {
	r.mu.Lock()
	defer r.mu.Unlock()
	if !r.Wrote {
		r.writeHeaderLocked(http.StatusOK)
	}
	if r.declaredCL >= 0 && int64(r.Body.Len()+len(p)) > r.declaredCL {
		r.Anomalies = append(r.Anomalies, fmt.Sprintf("wrote more than the declared Content-Length %d", r.declaredCL))
		return 0, http.ErrContentLength, 0
	}
	if r.Status == 204 || r.Status == 304 {
		if len(p) > 0 {
			r.Anomalies = append(r.Anomalies, fmt.Sprintf("body written with status %d", r.Status))
		}
		return 0, http.ErrBodyNotAllowed, 0
	}
	r.Body.Write(p)
	r.Events = append(r.Events, Event{Kind: "write", N: len(p)})
	return len(p), nil, r.Body.Len()
}

func (r *Recorder) Flush() {
	r.after()
	r.mu.Lock()
	if !r.Wrote {
		r.writeHeaderLocked(http.StatusOK)
	}
	total := r.Body.Len()
	r.Events = append(r.Events, Event{Kind: "flush", N: total})
	r.mu.Unlock()
	if r.onFlush != nil {
		r.onFlush(total) // outside the lock
	}
}

// Trailers resolves the trailers a net/http server would send: keys announced
// in the "Trailer" header at WriteHeader time (values from the live map at the
// end) plus keys carrying http.TrailerPrefix.
func (r *Recorder) Trailers() http.Header {
	r.mu.Lock()
	defer r.mu.Unlock()
	out := http.Header{}
	if r.Head != nil {
		for _, k := range splitList(r.Head.Values("Trailer")) {
			ck := http.CanonicalHeaderKey(k)
			if v, ok := r.live[ck]; ok {
				// net/http takes whatever is in the map at the end for a declared key
				out[ck] = append(out[ck], r.transmittable(ck, v)...)
			}
		}
	}
	for k, v := range r.live {
		if strings.HasPrefix(k, http.TrailerPrefix) {
			ck := http.CanonicalHeaderKey(strings.TrimPrefix(k, http.TrailerPrefix))
			out[ck] = append(out[ck], r.transmittable(ck, v)...)
		}
	}
	for k, v := range out {
		if len(v) == 0 {
			delete(out, k)
		}
	}
	return out
}

// transmittable mimics what net/http does to header values it cannot put on the wire: the HTTP/2
// server omits a value that is not a valid field value (control characters other than TAB, DEL), the
// HTTP/1 server replaces CR and LF by spaces. Either is noted for diagnostics.
func (r *Recorder) transmittable(k string, vals []string) []string {
	out := make([]string, 0, len(vals))
	for _, v := range vals {
		if httpguts.ValidHeaderFieldValue(v) {
			out = append(out, v)
			continue
		}
		if r.HTTP2 {
			r.Notes = append(r.Notes, fmt.Sprintf("header %s: value %q omitted (not a valid HTTP/2 field value)", k, v))
			continue
		}
		out = append(out, strings.NewReplacer("\r", " ", "\n", " ").Replace(v))
	}
	return out
}

// noFlushRecorder hides Flush (C11: writers without http.Flusher).
type noFlushRecorder struct{ r *Recorder }

func (n noFlushRecorder) Header() http.Header         { return n.r.Header() }
func (n noFlushRecorder) WriteHeader(c int)           { n.r.WriteHeader(c) }
func (n noFlushRecorder) Write(p []byte) (int, error) { return n.r.Write(p) }

// ---- building the request ----------------------------------------------------------

type builtRequest struct {
	Req        *http.Request
	Body       *scriptBody
	RawHead    string
	WireBody   []byte
	SentMsgs   []proto.Message // what the client logically sent
	Enc        *encodedRequest
	BuildError string
}

func sanitizeHeaderValue(v string) bool {
	for i := 0; i < len(v); i++ {
		c := v[i]
		if c == '\r' || c == '\n' || c == 0 || (c < 0x20 && c != '\t') || c == 0x7f {
			return false
		}
	}
	return true
}

// newRequest builds the *http.Request a net/http server would hand to the
// transcoder for this client request.
func newRequest(method, target string, hdr []KV, body []byte, http2 bool, declaredCL int64, splits []int, eofWithData bool, done *int32) (*http.Request, *scriptBody, string, error) {
	var sb strings.Builder
	fmt.Fprintf(&sb, "%s %s HTTP/1.1\r\nHost: bench.test\r\n", method, target)
	for _, kv := range hdr {
		if !sanitizeHeaderValue(kv.V) || !sanitizeHeaderValue(kv.K) || strings.ContainsAny(kv.K, " :") || kv.K == "" {
			return nil, nil, "", fmt.Errorf("header %q cannot be sent", kv.K)
		}
		fmt.Fprintf(&sb, "%s: %s\r\n", kv.K, kv.V)
	}
	sb.WriteString("\r\n")
	req, err := http.ReadRequest(bufio.NewReader(strings.NewReader(sb.String())))
	if err != nil {
		return nil, nil, sb.String(), err
	}
	req.RemoteAddr = "127.0.0.1:1234"
	if http2 {
		req.Proto, req.ProtoMajor, req.ProtoMinor = "HTTP/2.0", 2, 0
	}
	var sbody *scriptBody
	hasBody := body != nil
	if !hasBody {
		req.Body = http.NoBody
		req.ContentLength = 0
	} else {
		sbody = &scriptBody{data: body, splits: append([]int(nil), splits...), eofWithData: eofWithData, done: done}
		req.Body = sbody
		if declaredCL >= 0 {
			req.ContentLength = declaredCL
			req.Header.Set("Content-Length", fmt.Sprint(declaredCL))
		} else {
			req.ContentLength = -1
			req.Header.Del("Content-Length")
			if !http2 {
				req.TransferEncoding = []string{"chunked"}
			}
		}
	}
	return req, sbody, sb.String(), nil
}

// ---- running one scenario ---------------------------------------------------------

type Outcome struct {
	BuildErr     string // the scenario could not be turned into a request (generator bug or unsendable)
	ConfigErr    string // NewTranscoder rejected the config
	Sent         *encodedRequest
	Rec          *Recorder
	Trailers     http.Header
	Backend      *BackendView // nil: handler not invoked
	Invocations  int
	UnknownCalls int
	Unknown      *BackendView
	Panic        string // recovered panic value + first frames
	PanicScripted bool
	PanicInVanguard bool
	Client       *ClientView
	BodyReadsAfterReturn int32
	WriterCallsAfterReturn int32
	HandlerCtx   context.Context
	Body         *scriptBody
	Snapshot     *reqSnapshot // request as given to ServeHTTP
	Hang         bool         // ServeHTTP did not return within the watchdog (or the exchange wedged, see HangWhy)
	HangWhy      string
	Direct       bool         // the handler was given the client's own ResponseWriter (pass-through / unknown handler)
	cancelParent context.CancelFunc
	AllocBytes   int64 // bytes allocated while ServeHTTP ran (only when measureAlloc is on)
}

// measureAlloc makes runScenario record runtime.MemStats.TotalAlloc around ServeHTTP (C10).
var measureAlloc bool

// watchdog is three orders of magnitude above the normal latency of a case (DESIGN 2.1).
const watchdog = 30 * time.Second

const scriptedPanic = "verifbench: scripted backend panic"

type benchRun struct {
	root     http.ResponseWriter
	sc       *Scenario
	mu       sync.Mutex
	out      *Outcome
	script   func(w http.ResponseWriter, r *http.Request, view *BackendView) // optional override
	passRec  bool
}

func (br *benchRun) serviceHandler() http.Handler {
	return http.HandlerFunc(func(w http.ResponseWriter, r *http.Request) {
		br.mu.Lock()
		br.out.Invocations++
		br.out.HandlerCtx = r.Context()
		br.out.Direct = br.root != nil && w == br.root
		br.mu.Unlock()
		if br.sc.Backend.EarlyHeaders {
			presetResponseHeaders(br.sc, w, r)
		}
		view := observeBackendRequest(br.sc, w, r)
		br.mu.Lock()
		br.out.Backend = view
		br.mu.Unlock()
		if br.sc.Backend.Panic {
			panic(scriptedPanic)
		}
		if br.sc.Backend.CloseBody && br.sc.Backend.CloseAgain {
			defer func() { _ = r.Body.Close() }()
		}
		if br.script != nil {
			br.script(w, r, view)
			return
		}
		undecodable := false
		for _, m := range view.Msgs {
			if m == nil {
				undecodable = true
			}
		}
		if (view.ReadErr != "" || undecodable) && !br.sc.Backend.IgnoreReadErr {
			// a compliant server fails the RPC when it cannot read the request
			failed := *br.sc
			failed.Backend.Kind = "error"
			failed.Backend.Msgs = nil
			failed.Backend.Fault = nil
			failed.Backend.CodeRaw = ""
			failed.Backend.Err = &ErrSpec{Code: 13, Message: "handler could not read the request"}
			respond(&failed, view, w)
			return
		}
		respondWithBody(br.sc, view, w, r.Body)
	})
}

func (br *benchRun) unknownHandler() http.Handler {
	return http.HandlerFunc(func(w http.ResponseWriter, r *http.Request) {
		br.mu.Lock()
		br.out.UnknownCalls++
		br.out.HandlerCtx = r.Context()
		br.out.Direct = br.root != nil && w == br.root
		br.mu.Unlock()
		view := observeBackendRequest(br.sc, w, r)
		view.IsUnknown = true
		br.mu.Lock()
		br.out.Unknown = view
		br.mu.Unlock()
		if br.sc.Backend.Panic {
			panic(scriptedPanic)
		}
		respondRaw(br.sc, w)
	})
}

// transcoderCache avoids rebuilding identical transcoders (construction cost
// dominates small cases). Keyed by the JSON of the config. Handlers are
// indirected through a per-goroutine slot.
type handlerSlot struct {
	mu sync.Mutex
	h  http.Handler
	u  http.Handler
}

func runScenario(sc *Scenario) *Outcome {
	return runScenarioOn(sc, nil)
}

// runScenarioOn executes sc. If tr is nil a fresh transcoder is built from
// sc.Config; otherwise build must have been done with slot-dispatching handlers
// (see sharedTranscoder).
func runScenarioOn(sc *Scenario, shared *sharedTranscoder) *Outcome {
	return runScenarioOpts(sc, shared, false)
}

func runScenarioOpts(sc *Scenario, shared *sharedTranscoder, noFlusher bool) *Outcome {
	return runScenarioFull(sc, shared, noFlusher, nil)
}

// runScenarioCtx: like runScenarioOn, with extra values put into the request context.
func runScenarioCtx(sc *Scenario, shared *sharedTranscoder, withCtx func(context.Context) context.Context) *Outcome {
	return runScenarioFull(sc, shared, false, withCtx)
}

func runScenarioFull(sc *Scenario, shared *sharedTranscoder, noFlusher bool, withCtx func(context.Context) context.Context) *Outcome {
	out := &Outcome{}
	br := &benchRun{sc: sc, out: out}
	var done int32
	enc, err := encodeRequest(sc)
	if err != nil {
		out.BuildErr = err.Error()
		return out
	}
	out.Sent = enc
	req, body, _, err := newRequest(enc.Method, enc.Target, enc.Header, enc.Body, sc.Client.HTTP2, enc.DeclaredCL, sc.Client.ReadSplits, sc.Client.EOFWithData, &done)
	if err != nil {
		out.BuildErr = "request not sendable: " + err.Error()
		return out
	}
	if body != nil && enc.BodyErr != nil {
		body.finalErr = enc.BodyErr
	}
	if body != nil {
		body.chunk = sc.Client.ReadChunk
	}
	out.Body = body
	// like a real server, hand in a context that can be (but is not yet) cancelled
	parentCtx, cancelParent := context.WithCancel(req.Context())
	out.cancelParent = cancelParent
	req = req.WithContext(parentCtx)
	var handler http.Handler
	if shared != nil {
		handler = shared.tr
		ctx := context.WithValue(req.Context(), slotKey{}, br)
		if withCtx != nil {
			ctx = withCtx(ctx)
		}
		req = req.WithContext(ctx)
	} else {
		tr, err := buildTranscoder(sc.Config, br.serviceHandler(), br.unknownHandler())
		if err != nil {
			out.ConfigErr = err.Error()
			return out
		}
		handler = tr
	}
	out.Snapshot = snapshotRequest(req)
	rec := newRecorder(&done)
	rec.HTTP2 = sc.Client.HTTP2
	out.Rec = rec
	br.root = rec
	if noFlusher {
		br.root = noFlushRecorder{rec}
	}
	finished := make(chan struct{})
	go func() {
		defer close(finished)
		defer func() {
			if p := recover(); p != nil {
				stack := string(debug.Stack())
				out.Panic = fmt.Sprintf("%v\n%s", p, trimStack(stack))
				if s, ok := p.(string); ok && s == scriptedPanic {
					out.PanicScripted = true
				} else {
					out.PanicInVanguard = panicInVanguard(stack)
				}
			}
		}()
		if measureAlloc {
			var m0, m1 runtime.MemStats
			runtime.ReadMemStats(&m0)
			defer func() {
				runtime.ReadMemStats(&m1)
				out.AllocBytes = int64(m1.TotalAlloc - m0.TotalAlloc)
			}()
		}
		handler.ServeHTTP(br.root, req)
	}()
	select {
	case <-finished:
	case <-time.After(watchdog):
		// ServeHTTP did not return although every peer action completes immediately in this
		// driver. The goroutine is abandoned; nothing further of this run is inspected.
		out.Hang = true
		out.Client = &ClientView{Form: sc.Client.Form, Headers: http.Header{}, Trailers: http.Header{}}
		return out
	}
	atomic.StoreInt32(&done, 1)
	if out.Backend != nil && out.Backend.Spin {
		out.Hang, out.HangWhy = true, errSpinningRead.Error()
	}
	out.Trailers = rec.Trailers()
	out.Client = parseClientResponse(sc, enc, rec, out.Trailers)
	return out
}

type slotKey struct{}

type sharedTranscoder struct {
	tr *vanguard.Transcoder
}

func newSharedTranscoder(cfg Config) (*sharedTranscoder, error) {
	svc := http.HandlerFunc(func(w http.ResponseWriter, r *http.Request) {
		br, _ := r.Context().Value(slotKey{}).(*benchRun)
		if br == nil {
			http.Error(w, "no bench run in context", 500)
			return
		}
		br.serviceHandler().ServeHTTP(w, r)
	})
	unk := http.HandlerFunc(func(w http.ResponseWriter, r *http.Request) {
		br, _ := r.Context().Value(slotKey{}).(*benchRun)
		if br == nil {
			http.Error(w, "no bench run in context", 500)
			return
		}
		br.unknownHandler().ServeHTTP(w, r)
	})
	tr, err := buildTranscoder(cfg, svc, unk)
	if err != nil {
		return nil, err
	}
	return &sharedTranscoder{tr: tr}, nil
}

func trimStack(s string) string {
	lines := strings.Split(s, "\n")
	var keep []string
	for _, l := range lines {
		if strings.Contains(l, "connectrpc.com/vanguard") || strings.HasPrefix(l, "panic") {
			keep = append(keep, strings.TrimSpace(l))
		}
		if len(keep) >= 12 {
			break
		}
	}
	return strings.Join(keep, "\n")
}

// panicInVanguard: first non-runtime frame after the panic call belongs to
// package vanguard proper (not to our harness package under internal/verifbench).
func panicInVanguard(stack string) bool {
	lines := strings.Split(stack, "\n")
	seenPanic := false
	for _, l := range lines {
		l = strings.TrimSpace(l)
		if strings.HasPrefix(l, "panic(") {
			seenPanic = true
			continue
		}
		if !seenPanic {
			continue
		}
		if strings.HasPrefix(l, "/") || l == "" {
			continue // file:line rows
		}
		if strings.HasPrefix(l, "runtime.") || strings.HasPrefix(l, "runtime/") {
			continue
		}
		if strings.Contains(l, "verifbench.(*trackedDecomp)") || strings.Contains(l, "verifbench.(*trackedComp)") || strings.Contains(l, "verifbench.(*zlibDecomp)") {
			continue // the bookkeeping (de)compressors only pass calls through: whoever called them is responsible
		}
		if strings.Contains(l, "internal/verifbench") {
			return false
		}
		if strings.HasPrefix(l, "connectrpc.com/vanguard.") || strings.HasPrefix(l, "connectrpc.com/vanguard/") {
			return true
		}
		// a library frame (bytes, protobuf, net/http ...) called from somewhere: keep looking
	}
	return false
}

// ---- request snapshot (C13) -----------------------------------------------------

type reqSnapshot struct {
	Method, Path, RawPath, RawQuery, Proto, Host, RequestURI string
	ProtoMajor, ProtoMinor                                   int
	Header                                                   http.Header
	ContentLength                                            int64
	TransferEncoding                                         []string
	Fragment, Opaque                                         string
	ForceQuery                                               bool
}

func snapshotRequest(r *http.Request) *reqSnapshot {
	return &reqSnapshot{
		Method: r.Method, Path: r.URL.Path, RawPath: r.URL.RawPath, RawQuery: r.URL.RawQuery,
		Proto: r.Proto, Host: r.Host, RequestURI: r.RequestURI, ProtoMajor: r.ProtoMajor, ProtoMinor: r.ProtoMinor,
		Header: r.Header.Clone(), ContentLength: r.ContentLength, TransferEncoding: append([]string(nil), r.TransferEncoding...),
		Fragment: r.URL.Fragment, Opaque: r.URL.Opaque, ForceQuery: r.URL.ForceQuery,
	}
}

func (a *reqSnapshot) diff(b *reqSnapshot) []string {
	var d []string
	chk := func(name string, x, y any) {
		if fmt.Sprint(x) != fmt.Sprint(y) {
			d = append(d, fmt.Sprintf("%s: client sent %q, handler saw %q", name, fmt.Sprint(x), fmt.Sprint(y)))
		}
	}
	chk("Method", a.Method, b.Method)
	chk("URL.Path", a.Path, b.Path)
	chk("URL.RawPath", a.RawPath, b.RawPath)
	chk("URL.RawQuery", a.RawQuery, b.RawQuery)
	chk("URL.ForceQuery", a.ForceQuery, b.ForceQuery)
	chk("URL.Fragment", a.Fragment, b.Fragment)
	chk("URL.Opaque", a.Opaque, b.Opaque)
	chk("Proto", a.Proto, b.Proto)
	chk("ProtoMajor", a.ProtoMajor, b.ProtoMajor)
	chk("ProtoMinor", a.ProtoMinor, b.ProtoMinor)
	chk("Host", a.Host, b.Host)
	chk("RequestURI", a.RequestURI, b.RequestURI)
	chk("ContentLength", a.ContentLength, b.ContentLength)
	chk("TransferEncoding", a.TransferEncoding, b.TransferEncoding)
	keys := map[string]bool{}
	for k := range a.Header {
		keys[k] = true
	}
	for k := range b.Header {
		keys[k] = true
	}
	ks := make([]string, 0, len(keys))
	for k := range keys {
		ks = append(ks, k)
	}
	sort.Strings(ks)
	for _, k := range ks {
		if strings.Join(a.Header[k], "\x00") != strings.Join(b.Header[k], "\x00") || len(a.Header[k]) != len(b.Header[k]) {
			d = append(d, fmt.Sprintf("header %s: client sent %q, handler saw %q", k, a.Header[k], b.Header[k]))
		}
	}
	return d
}
