package verifbench

// Reference wire layer, part 3: the scripted backend. observeBackendRequest is
// the strict per-protocol validator of what the transcoder handed to a service
// handler; respond answers in whatever protocol the transcoder chose to speak.

import (
	"errors"
	"encoding/binary"
	"encoding/base64"
	"encoding/json"
	"fmt"
	"io"
	"net/http"
	"net/url"
	"sort"
	"strconv"
	"strings"

	"google.golang.org/protobuf/encoding/protojson"
	"google.golang.org/protobuf/proto"
	"google.golang.org/protobuf/reflect/protoreflect"
)

type BackendView struct {
	IsUnknown   bool
	Snap        *reqSnapshot
	EscapedPath string
	Body        []byte
	ReadErr     string
	Spin        bool // Body.Read stopped making progress without reporting EOF or an error
	ReadChunks  int
	Protocol    string // connect | grpc | grpcweb | rest | ""
	Sub         string // connect: unary | get | stream
	Codec       string
	Compression string
	Accept      []string
	Frames      []Frame
	Msgs        []proto.Message
	Payloads    [][]byte
	WireSizes   []int
	Compressed  []bool
	MI          *methodInfo
	Rule        *RuleSpec
	RestFit     int
	TimeoutHdr  string
	Timeout     string
	HasTimeout  bool
	Problems    []string
	Incomplete  string
	Header      http.Header
}

func (v *BackendView) problem(f string, a ...any) {
	v.Problems = append(v.Problems, fmt.Sprintf(f, a...))
}

func (v *BackendView) triple() string {
	if v == nil {
		return "-"
	}
	p := v.Protocol
	if v.Sub != "" {
		p += "/" + v.Sub
	}
	return p + "+" + v.Codec + "+" + v.Compression
}

// errSpinningRead: Body.Read made no progress for 1000 calls in a row although it reported neither
// data nor an error. io.ReadAll, io.Copy and bytes.Buffer.ReadFrom would spin on such a body for
// ever (or panic), so this counts as a wedge of the exchange.
var errSpinningRead = errors.New("request body Read returned (0, nil) 1000 times in a row: a standard reader would spin forever")

func readAll(r io.Reader, bufSizes []int) (data []byte, chunks int, err error) {
	i := 0
	zero := 0
	for {
		sz := 32 * 1024
		if len(bufSizes) > 0 {
			sz = bufSizes[i%len(bufSizes)]
			if sz <= 0 {
				sz = 1
			}
			i++
		}
		buf := make([]byte, sz)
		n, rerr := r.Read(buf)
		chunks++
		data = append(data, buf[:n]...)
		if rerr != nil {
			if rerr == io.EOF {
				return data, chunks, nil
			}
			return data, chunks, rerr
		}
		if n == 0 {
			zero++
			if zero > 1000 {
				return data, chunks, errSpinningRead
			}
		} else {
			zero = 0
		}
	}
}

func methodFromPath(p string) *methodInfo {
	parts := strings.Split(strings.TrimPrefix(p, "/"), "/")
	if len(parts) != 2 {
		return nil
	}
	return lookupMethod(parts[0], parts[1])
}

func observeBackendRequest(sc *Scenario, w http.ResponseWriter, r *http.Request) *BackendView {
	v := &BackendView{Snap: snapshotRequest(r), Header: r.Header.Clone(), EscapedPath: r.URL.EscapedPath()}
	var err error
	if sc.Backend.ReadAfterWrites > 0 {
		// full-duplex handler: starts answering before it reads (the rest of) the request, see writeResponse
	} else if sc.Backend.ReadFirst > 0 {
		buf := make([]byte, sc.Backend.ReadFirst)
		n, _ := io.ReadFull(r.Body, buf)
		v.Body = buf[:n]
	} else {
		v.Body, v.ReadChunks, err = readAll(r.Body, sc.Backend.ReadBuf)
		if err != nil {
			v.ReadErr = err.Error()
			v.Spin = errors.Is(err, errSpinningRead)
		}
	}
	classifyBackendRequest(sc, v, r)
	if sc.Backend.CloseBody && sc.Backend.CloseAfterWrites == 0 {
		_ = r.Body.Close()
	}
	return v
}

var grpcTimeoutRe = mustRe(`^[0-9]{1,8}[HMSmun]$`)
var connectTimeoutRe = mustRe(`^[0-9]{1,10}$`)
var restTimeoutRe = mustRe(`^[0-9]+(\.[0-9]+)?$`)

func classifyBackendRequest(sc *Scenario, v *BackendView, r *http.Request) {
	h := r.Header
	cts := h.Values("Content-Type")
	ct := ""
	if len(cts) > 0 {
		ct = cts[0]
	}
	if len(cts) > 1 {
		v.problem("multiple Content-Type headers %q", cts)
	}
	single := func(name string) string {
		vals := h.Values(name)
		if len(vals) > 1 {
			v.problem("header %s appears %d times: %q", name, len(vals), vals)
		}
		if len(vals) == 0 {
			return ""
		}
		return vals[0]
	}
	isGRPC := ct == "application/grpc" || strings.HasPrefix(ct, "application/grpc+")
	isWeb := ct == "application/grpc-web" || strings.HasPrefix(ct, "application/grpc-web+")
	isCStream := strings.HasPrefix(ct, "application/connect+")
	mi := methodFromPath(r.URL.Path)
	switch {
	case isGRPC || isWeb:
		v.Protocol = ProtoGRPC
		prefix := "application/grpc"
		if isWeb {
			v.Protocol = ProtoGRPCWeb
			prefix = "application/grpc-web"
		}
		if ct == prefix {
			v.Codec = CodecProto
		} else {
			v.Codec = ct[len(prefix)+1:]
		}
		if r.Method != "POST" {
			v.problem("%s request uses method %s", v.Protocol, r.Method)
		}
		if isGRPC {
			if r.ProtoMajor != 2 {
				v.problem("gRPC request is not HTTP/2 (%s)", r.Proto)
			}
			if te := single("Te"); te != "trailers" {
				v.problem("gRPC request has te=%q, want trailers", te)
			}
		}
		v.Compression = single("Grpc-Encoding")
		v.Accept = splitList(h.Values("Grpc-Accept-Encoding"))
		if t := h.Values("Grpc-Timeout"); len(t) > 0 {
			v.HasTimeout, v.Timeout, v.TimeoutHdr = true, single("Grpc-Timeout"), "Grpc-Timeout"
			if !grpcTimeoutRe.MatchString(v.Timeout) {
				v.problem("Grpc-Timeout %q is not 1*8DIGIT unit", v.Timeout)
			}
		}
		v.MI = mi
		if mi == nil {
			v.problem("path %q is not /service/method of a known method", r.URL.Path)
		}
		if r.URL.RawQuery != "" {
			v.problem("RPC request line carries a query string %q", r.URL.RawQuery)
		}
		v.parseEnveloped()
	case isCStream:
		v.Protocol, v.Sub = ProtoConnect, "stream"
		v.Codec = ct[len("application/connect+"):]
		if r.Method != "POST" {
			v.problem("connect stream request uses method %s", r.Method)
		}
		v.Compression = single("Connect-Content-Encoding")
		v.Accept = splitList(h.Values("Connect-Accept-Encoding"))
		v.connectTimeout(h, single)
		v.MI = mi
		if mi == nil {
			v.problem("path %q is not /service/method of a known method", r.URL.Path)
		} else if !mi.CStream && !mi.SStream {
			v.problem("unary method %s received the Connect streaming content-type", mi.Name)
		}
		if r.URL.RawQuery != "" {
			v.problem("RPC request line carries a query string %q", r.URL.RawQuery)
		}
		if ce := h.Get("Content-Encoding"); ce != "" && ce != "identity" {
			v.problem("Connect stream request carries Content-Encoding %q", ce)
		}
		v.parseEnveloped()
	case mi != nil && r.Method == "POST" && strings.HasPrefix(ct, "application/") && h.Get("Connect-Protocol-Version") == "1":
		v.Protocol, v.Sub = ProtoConnect, "unary"
		v.MI = mi
		v.Codec = strings.TrimPrefix(ct, "application/")
		v.Compression = single("Content-Encoding")
		v.Accept = splitList(h.Values("Accept-Encoding"))
		v.connectTimeout(h, single)
		if mi.CStream || mi.SStream {
			v.problem("streaming method %s received a Connect unary request", mi.Name)
		}
		if r.URL.RawQuery != "" {
			v.problem("Connect unary POST carries a query string %q", r.URL.RawQuery)
		}
		v.parseUnaryBody()
	case mi != nil && r.Method == "GET" && r.URL.Query().Get("connect") == "v1":
		v.Protocol, v.Sub = ProtoConnect, "get"
		v.MI = mi
		q, perr := parseQueryOrdered(r.URL.RawQuery)
		if perr != nil {
			v.problem("Connect GET query is malformed: %v", perr)
		}
		get := func(k string) (string, int) {
			n, val := 0, ""
			for _, kv := range q {
				if kv.K == k {
					if n == 0 {
						val = kv.V
					}
					n++
				}
			}
			return val, n
		}
		for _, kv := range q {
			switch kv.K {
			case "connect", "encoding", "message", "base64", "compression":
			default:
				v.problem("Connect GET carries unknown query parameter %q", kv.K)
			}
		}
		var n int
		if v.Codec, n = get("encoding"); n != 1 {
			v.problem("Connect GET has %d encoding parameters", n)
		}
		v.Compression, _ = get("compression")
		v.Accept = splitList(h.Values("Accept-Encoding"))
		v.connectTimeout(h, single)
		if len(v.Body) > 0 {
			v.problem("Connect GET request has a body of %d bytes", len(v.Body))
		}
		if !mi.NoSideFx {
			v.problem("Connect GET issued for method %s which is not side-effect-free", mi.Name)
		}
		msgStr, n := get("message")
		if n != 1 {
			v.problem("Connect GET has %d message parameters", n)
		}
		b64, _ := get("base64")
		data := []byte(msgStr)
		switch b64 {
		case "1":
			d, err := b64Any(msgStr)
			if err != nil || strings.ContainsAny(msgStr, "+/") {
				v.problem("Connect GET message is not URL-safe base64: %v", err)
			}
			data = d
		case "", "0":
		default:
			v.problem("Connect GET base64=%q", b64)
		}
		v.WireSizes = append(v.WireSizes, len(data))
		comp := v.Compression
		if comp == "identity" {
			comp = ""
		}
		if comp != "" {
			d, err := decompressBytes(comp, data)
			if err != nil {
				v.problem("Connect GET message declared %s does not inflate: %v", comp, err)
				return
			}
			data = d
		}
		v.Compressed = append(v.Compressed, comp != "")
		v.decode(data)
	default:
		v.Protocol = ProtoREST
		v.Codec = CodecJSON
		v.Compression = single("Content-Encoding")
		v.Accept = splitList(h.Values("Accept-Encoding"))
		if t := h.Values("X-Server-Timeout"); len(t) > 0 {
			v.HasTimeout, v.Timeout, v.TimeoutHdr = true, single("X-Server-Timeout"), "X-Server-Timeout"
			if !restTimeoutRe.MatchString(v.Timeout) {
				v.problem("X-Server-Timeout %q is not a non-negative decimal", v.Timeout)
			}
		}
		v.parseREST(sc, r)
	}
	if v.Compression == "identity" {
		v.Compression = ""
	}
}

func (v *BackendView) connectTimeout(h http.Header, single func(string) string) {
	if t := h.Values("Connect-Timeout-Ms"); len(t) > 0 {
		v.HasTimeout, v.Timeout, v.TimeoutHdr = true, single("Connect-Timeout-Ms"), "Connect-Timeout-Ms"
		if !connectTimeoutRe.MatchString(v.Timeout) {
			v.problem("Connect-Timeout-Ms %q is not 1*10DIGIT", v.Timeout)
		}
	}
}

func (v *BackendView) decode(payload []byte) {
	v.Payloads = append(v.Payloads, payload)
	if v.MI == nil {
		v.Msgs = append(v.Msgs, nil)
		return
	}
	m, err := decodeMsg(v.Codec, payload, v.MI.In)
	if err != nil {
		v.problem("payload does not decode as %s %s: %v", v.Codec, v.MI.In, err)
		v.Msgs = append(v.Msgs, nil)
		return
	}
	v.Msgs = append(v.Msgs, m)
}

func (v *BackendView) parseEnveloped() {
	comp := v.Compression
	if comp == "identity" {
		comp = ""
	}
	frames, err := parseFrames(v.Body)
	v.Frames = frames
	if err != nil {
		v.Incomplete = err.Error()
		if v.ReadErr == "" {
			v.problem("request body ended cleanly but %s", err)
		}
	}
	for i, fr := range frames {
		if fr.Flags != 0 && fr.Flags != 1 {
			v.problem("request frame %d has invalid flags 0x%02x", i, fr.Flags)
			continue
		}
		p := fr.Payload
		v.WireSizes = append(v.WireSizes, len(p))
		v.Compressed = append(v.Compressed, fr.Flags == 1)
		if fr.Flags == 1 {
			if comp == "" {
				v.problem("request frame %d is flagged compressed but no compression is declared", i)
				v.Payloads = append(v.Payloads, nil)
				v.Msgs = append(v.Msgs, nil)
				continue
			}
			d, err := decompressFrame(comp, p)
			if err != nil {
				v.problem("request frame %d flagged compressed does not inflate with %s: %v", i, comp, err)
				v.Payloads = append(v.Payloads, nil)
				v.Msgs = append(v.Msgs, nil)
				continue
			}
			p = d
		}
		v.decode(p)
	}
}

func (v *BackendView) parseUnaryBody() {
	comp := v.Compression
	if comp == "identity" {
		comp = ""
	}
	p := v.Body
	v.WireSizes = append(v.WireSizes, len(p))
	v.Compressed = append(v.Compressed, comp != "")
	if comp != "" {
		d, err := decompressBytes(comp, p)
		if err != nil {
			v.problem("body declared %s does not inflate: %v", comp, err)
			v.Payloads = append(v.Payloads, nil)
			v.Msgs = append(v.Msgs, nil)
			return
		}
		p = d
	}
	v.decode(p)
}

func (v *BackendView) parseREST(sc *Scenario, r *http.Request) {
	// Which binding? The scenario's method tells which service method was meant;
	// the request must match one of ITS bindings.
	c := &sc.Client
	svc := c.service()
	var candidates []*methodInfo
	if mi := lookupMethod(svc, c.Method); mi != nil {
		candidates = append(candidates, mi)
	}
	raw := v.EscapedPath
	comp := v.Compression
	if comp == "identity" {
		comp = ""
	}
	body := v.Body
	v.WireSizes = append(v.WireSizes, len(body))
	v.Compressed = append(v.Compressed, comp != "")
	if comp != "" && len(body) > 0 {
		d, err := decompressBytes(comp, body)
		if err != nil {
			v.problem("REST body declared %s does not inflate: %v", comp, err)
			body = nil
		} else {
			body = d
		}
	}
	for _, mi := range candidates {
		for _, rule := range bindingsFor(sc, mi.Service, mi.Name) {
			if rule.Method != r.Method && rule.Method != "*" {
				continue
			}
			t, err := parseTemplate(rule.Template)
			if err != nil {
				continue
			}
			mr := matchTemplate(t, raw)
			if mr.Level == mNo {
				continue
			}
			rule := rule
			v.MI, v.Rule = mi, &rule
			br := bindREST(rule, mi.In, mr.Captures, r.URL.RawQuery, body, v.Header.Get("Content-Type"), false)
			v.RestFit = br.Fit
			if mr.Level == mMaybe && br.Fit == fitYes {
				v.RestFit = fitMaybe
			}
			v.Payloads = append(v.Payloads, body)
			if br.Fit == fitYes {
				v.Msgs = append(v.Msgs, br.Msg)
			} else {
				v.Msgs = append(v.Msgs, nil)
				v.problem("REST request does not re-parse under rule %s %s: %s", rule.Method, rule.Template, br.Why)
			}
			if rule.Body == "" && len(v.Body) > 0 {
				v.problem("REST request for a rule without body carries %d body bytes", len(v.Body))
			}
			if rule.Body != "" {
				ct := v.Header.Get("Content-Type")
				hb := false
				md := messageDescriptor(mi.In)
				if rule.Body == "*" {
					hb = isHTTPBody(md)
				} else if f := md.Fields().ByName(protoName(rule.Body)); f != nil && f.Message() != nil && !f.IsList() {
					hb = isHTTPBody(f.Message())
				}
				if !hb && ct != "application/json" {
					v.problem("REST request body has content-type %q, want application/json", ct)
				}
			}
			return
		}
	}
	v.problem("request %s %s matches no binding of method %s (not a valid request of any configured protocol)", r.Method, raw, c.Method)
}

// ---- responding -------------------------------------------------------------------

type builtResponse struct {
	Status      int
	Header      http.Header
	Body        []byte
	Trailer     http.Header
	NoBody      bool
	CL          *int // overrides the declared Content-Length (fault injection)
	reqBody     io.ReadCloser
}

func pickResponseCompression(sc *Scenario, v *BackendView) string {
	if !sc.Backend.Compress {
		return ""
	}
	for _, a := range v.Accept {
		if a == CompGzip || a == CompDeflate {
			return a
		}
	}
	return ""
}

func (b *Backend) rawMsg(i int) bool { return i < len(b.MsgRaw) && b.MsgRaw[i] }

// codeRawNone: the error carries no code at all (Connect: an error object without "code"; gRPC: an
// empty grpc-status value; REST: a status body without "code").
const codeRawNone = "<none>"

func grpcStatusText(b *Backend) string {
	if b.CodeRaw == codeRawNone {
		return ""
	}
	if b.CodeRaw != "" {
		return b.CodeRaw
	}
	if b.Err == nil {
		return "0"
	}
	return strconv.FormatInt(b.Err.Code, 10)
}

// buildResponse renders the backend script in the protocol of view.
func buildResponse(sc *Scenario, v *BackendView) *builtResponse {
	out := buildResponseInner(sc, v)
	if sc.Backend.IdentityHeader && sc.Backend.Kind != "http_status" && sc.Backend.Kind != "raw" {
		// a server that does not compress may say so: "identity" in its protocol's encoding header
		key := "Content-Encoding"
		switch {
		case v.Protocol == ProtoGRPC || v.Protocol == ProtoGRPCWeb:
			key = "Grpc-Encoding"
		case v.Protocol == ProtoConnect && v.Sub == "stream":
			key = "Connect-Content-Encoding"
		}
		if out.Header.Get(key) == "" {
			out.Header.Set(key, "identity")
		}
	}
	return out
}

func buildResponseInner(sc *Scenario, v *BackendView) *builtResponse {
	b := &sc.Backend
	out := &builtResponse{Status: 200, Header: http.Header{}, Trailer: http.Header{}}
	for _, kv := range b.Headers {
		out.Header.Add(kv.K, kv.V)
	}
	if b.Kind == "http_status" || b.Kind == "raw" {
		out.Status = b.HTTPStatus
		if b.RawCT != "" {
			out.Header.Set("Content-Type", b.RawCT)
		}
		for _, kv := range b.RawHeaders {
			out.Header.Add(kv.K, kv.V)
		}
		out.Body = append([]byte(nil), b.RawBody...)
		return out
	}
	outType := ""
	if v.MI != nil {
		outType = v.MI.Out
	}
	var msgs []proto.Message
	for _, mb := range b.Msgs {
		if outType == "" {
			break
		}
		m := newMessage(outType)
		_ = proto.Unmarshal(mb, m)
		msgs = append(msgs, m)
	}
	comp := pickResponseCompression(sc, v)
	isErr := b.Kind == "error" || b.Kind == "trailers_only"
	errSpec := b.Err
	if isErr && errSpec == nil {
		errSpec = &ErrSpec{Code: 2, Message: "unspecified"}
	}
	if isErr && b.CodeRaw != "" {
		// a raw status text replaces the code; details (which embed a code of their own) are dropped
		errSpec = &ErrSpec{Code: errSpec.Code, Message: errSpec.Message}
	}
	appTrailers := kvHeader(b.Trailers)
	switch {
	case v.Protocol == ProtoGRPC || v.Protocol == ProtoGRPCWeb:
		ct := "application/grpc"
		if v.Protocol == ProtoGRPCWeb {
			ct = "application/grpc-web"
		}
		out.Header.Set("Content-Type", ct+"+"+v.Codec)
		if comp != "" {
			out.Header.Set("Grpc-Encoding", comp)
		}
		var st http.Header
		if isErr {
			st = grpcTrailersFor(errSpec, b.PadDetails)
		} else {
			st = grpcTrailersFor(nil, false)
			if b.OKMessage != "" {
				st.Set("Grpc-Message", grpcMessageEncode(b.OKMessage))
			}
		}
		if b.CodeRaw != "" {
			st.Set("Grpc-Status", grpcStatusText(b))
		}
		if b.Kind == "trailers_only" {
			for k, vals := range st {
				out.Header[k] = vals
			}
			for k, vals := range appTrailers {
				out.Header[k] = append(out.Header[k], vals...)
			}
			out.NoBody = true
			return out
		}
		for i, m := range msgs {
			p, _ := encodeMsg(v.Codec, JSONStyle{}, m)
			flags := byte(0)
			if comp != "" && !b.rawMsg(i) {
				p = compressBytes(comp, p)
				flags = 1
			}
			out.Body = appendFrame(out.Body, flags, p)
		}
		for k, vals := range appTrailers {
			st[k] = append(st[k], vals...)
		}
		if v.Protocol == ProtoGRPC {
			out.Trailer = st
		} else {
			var sb strings.Builder
			keys := make([]string, 0, len(st))
			for k := range st {
				keys = append(keys, k)
			}
			sort.Strings(keys)
			for _, k := range keys {
				for _, val := range st[k] {
					sep := ": "
					if b.CompactTrailers {
						sep = ":" // the space after the colon is optional
					}
					sb.WriteString(strings.ToLower(k) + sep + val + "\r\n")
				}
			}
			tp, tf := []byte(sb.String()), byte(0x80)
			if b.CompressEnd && comp != "" {
				tp, tf = compressBytes(comp, tp), 0x81
			}
			out.Body = appendFrame(out.Body, tf, tp)
		}
	case v.Protocol == ProtoConnect && v.Sub == "stream":
		out.Header.Set("Content-Type", "application/connect+"+v.Codec)
		if comp != "" {
			out.Header.Set("Connect-Content-Encoding", comp)
		}
		if b.Kind != "trailers_only" {
			for i, m := range msgs {
				p, _ := encodeMsg(v.Codec, JSONStyle{}, m)
				flags := byte(0)
				if comp != "" && !b.rawMsg(i) {
					p = compressBytes(comp, p)
					flags = 1
				}
				out.Body = appendFrame(out.Body, flags, p)
			}
		}
		end := map[string]any{}
		if isErr {
			end["error"] = json.RawMessage(connectErrorJSONFor(errSpec))
			if b.CodeRaw != "" {
				var e map[string]any
				_ = json.Unmarshal(connectErrorJSONFor(errSpec), &e)
				e["code"] = connectRawCode(b.CodeRaw)
				if b.CodeRaw == codeRawNone {
					delete(e, "code") // an error object without a code at all
				}
				end["error"] = e
			}
		}
		if len(appTrailers) > 0 {
			end["metadata"] = map[string][]string(appTrailers)
		}
		ej, _ := json.Marshal(end)
		ef := byte(2)
		if b.CompressEnd && comp != "" {
			ej, ef = compressBytes(comp, ej), 3
		}
		out.Body = appendFrame(out.Body, ef, ej)
	case v.Protocol == ProtoConnect:
		for k, vals := range appTrailers {
			out.Header["Trailer-"+k] = vals
		}
		if isErr {
			out.Status = httpStatusForCode[errSpec.Code]
			if out.Status == 0 {
				out.Status = 500
			}
			out.Header.Set("Content-Type", "application/json")
			body := connectErrorJSONFor(errSpec)
			if b.CodeRaw != "" {
				var e map[string]any
				_ = json.Unmarshal(body, &e)
				e["code"] = connectRawCode(b.CodeRaw)
				if b.CodeRaw == codeRawNone {
					delete(e, "code")
				}
				body, _ = json.Marshal(e)
			}
			if b.CompressError && comp != "" {
				// the Connect protocol allows a compressed error body (connect-go never sends one)
				out.Header.Set("Content-Encoding", comp)
				body = compressBytes(comp, body)
			}
			out.Body = body
			return out
		}
		out.Header.Set("Content-Type", "application/"+v.Codec)
		var p []byte
		if len(msgs) > 0 {
			p, _ = encodeMsg(v.Codec, JSONStyle{}, msgs[0])
		}
		if comp != "" {
			out.Header.Set("Content-Encoding", comp)
			p = compressBytes(comp, p)
		}
		out.Body = p
	case v.Protocol == ProtoREST:
		if isErr {
			out.Status = httpStatusForCode[errSpec.Code]
			if out.Status == 0 {
				out.Status = 500
			}
			out.Header.Set("Content-Type", "application/json")
			if n, ok := restRawCode(b); ok {
				errSpec = &ErrSpec{Code: int64(n), Message: errSpec.Message}
				out.Status = 500
			}
			body, err := restErrorJSONFor(errSpec)
			if err != nil {
				body, _ = protojson.Marshal((&ErrSpec{Code: errSpec.Code, Message: errSpec.Message}).statusProto())
			}
			if b.CompressError && comp != "" {
				// an error body is an HTTP body like any other: a server (or the middleware in front of
				// it) may compress it when the request allowed that
				out.Header.Set("Content-Encoding", comp)
				body = compressBytes(comp, body)
			}
			out.Body = body
			return out
		}
		var p []byte
		ctype := "application/json"
		if len(msgs) > 0 && v.Rule != nil {
			sub, fd, isBody, err := expectedRESTResponseField(*v.Rule, msgs[0])
			switch {
			case err != nil:
			case isBody:
				for _, m := range msgs {
					s, _, _, _ := expectedRESTResponseField(*v.Rule, m)
					hb := s.ProtoReflect()
					if c := hb.Get(hb.Descriptor().Fields().ByName("content_type")).String(); c != "" {
						ctype = c
					}
					p = append(p, hb.Get(hb.Descriptor().Fields().ByName("data")).Bytes()...)
				}
			case fd == nil:
				p, _ = encodeMsg(CodecJSON, JSONStyle{}, sub)
			default:
				p, _ = fieldJSON(msgs[0], fd, JSONStyle{})
			}
		}
		out.Header.Set("Content-Type", ctype)
		if comp != "" {
			out.Header.Set("Content-Encoding", comp)
			p = compressBytes(comp, p)
		}
		out.Body = p
	default:
		out.Status = 500
		out.Body = []byte("bench: unclassified request")
	}
	return out
}

// presetResponseHeaders: what a handler that prepares its response headers up front (connect-go does
// so in NewConn, before the first Receive) has put into the header map by the time it reads the
// request: the content type and the encodings of its own protocol. writeResponse later overwrites them.
var presetKeys = []string{"Content-Type", "Content-Encoding", "Accept-Encoding", "Connect-Content-Encoding", "Connect-Accept-Encoding", "Grpc-Encoding", "Grpc-Accept-Encoding"}

func presetResponseHeaders(sc *Scenario, w http.ResponseWriter, r *http.Request) {
	if sc.Backend.Kind == "http_status" || sc.Backend.Kind == "raw" {
		return
	}
	pv := &BackendView{Snap: snapshotRequest(r), Header: r.Header.Clone(), EscapedPath: r.URL.EscapedPath()}
	classifyBackendRequest(sc, pv, r)
	if pv.MI == nil {
		return
	}
	ok := *sc
	ok.Backend.Kind, ok.Backend.Err, ok.Backend.Fault = "ok", nil, nil
	resp := buildResponse(&ok, pv)
	for _, k := range presetKeys {
		if vals, has := resp.Header[k]; has {
			w.Header()[k] = append([]string(nil), vals...)
		}
	}
}

func respond(sc *Scenario, v *BackendView, w http.ResponseWriter) {
	respondWithBody(sc, v, w, nil)
}

func respondWithBody(sc *Scenario, v *BackendView, w http.ResponseWriter, reqBody io.ReadCloser) {
	resp := buildResponse(sc, v)
	resp.reqBody = reqBody
	for _, o := range sc.Backend.Override {
		resp.Header.Del(o.K)
		if o.V != "" {
			resp.Header.Set(o.K, o.V)
		}
	}
	applyResponseFault(sc, v, resp)
	writeResponse(sc, resp, w)
}

func respondRaw(sc *Scenario, w http.ResponseWriter) {
	b := &sc.Backend
	resp := &builtResponse{Status: b.HTTPStatus, Header: http.Header{}, Trailer: kvHeader(b.Trailers), Body: append([]byte(nil), b.RawBody...)}
	if resp.Status == 0 {
		resp.Status = 200
	}
	for _, kv := range b.Headers {
		resp.Header.Add(kv.K, kv.V)
	}
	for _, kv := range b.RawHeaders {
		resp.Header.Add(kv.K, kv.V)
	}
	if b.RawCT != "" {
		resp.Header.Set("Content-Type", b.RawCT)
	}
	writeResponse(sc, resp, w)
}

// writeResponse performs the handler's calls on w according to the write
// pattern of the script.
func writeResponse(sc *Scenario, resp *builtResponse, w http.ResponseWriter) {
	b := &sc.Backend
	h := w.Header()
	if b.EarlyHeaders {
		for _, k := range presetKeys {
			h.Del(k)
		}
	}
	for k, vals := range resp.Header {
		for _, val := range vals {
			h.Add(k, val)
		}
	}
	declared := b.TrailerStyle != "prefixed"
	var announced []string
	if len(resp.Trailer) > 0 && declared {
		keys := make([]string, 0, len(resp.Trailer))
		for k := range resp.Trailer {
			keys = append(keys, k)
		}
		sort.Strings(keys)
		for _, k := range keys {
			// field names are case-insensitive, in the Trailer announcement too
			switch b.TrailerCase {
			case "lower":
				k = strings.ToLower(k)
			case "mixed":
				k = strings.ToUpper(k[:1]) + strings.ToLower(k[1:])
			case "upper":
				k = strings.ToUpper(k)
			}
			announced = append(announced, k)
		}
		if b.TrailerOneLine {
			// one field line listing all names (RFC 9110 list syntax), instead of one line per name
			h.Add("Trailer", strings.Join(announced, ", "))
		} else {
			for _, k := range announced {
				h.Add("Trailer", k)
			}
		}
	}
	if resp.CL != nil {
		h.Set("Content-Length", strconv.Itoa(*resp.CL))
	} else if b.DeclareCL {
		h.Set("Content-Length", strconv.Itoa(len(resp.Body)))
	}
	if resp.Status != 200 || len(resp.Body) == 0 || b.Kind == "raw" || b.ExplicitHead {
		w.WriteHeader(resp.Status)
	}
	fl, _ := w.(http.Flusher)
	body := resp.Body
	i := 0
	writes := 0
	requestRead := false
	var frameEnds []int // with WritePerFrame: absolute offsets at which a frame of the (enveloped) body ends
	if b.WritePerFrame {
		for _, o := range frameOffsets(resp.Body) {
			frameEnds = append(frameEnds, o+5+int(binary.BigEndian.Uint32(resp.Body[o+1:o+5])))
		}
	}
	for len(body) > 0 {
		n := len(body)
		if len(frameEnds) > 0 {
			pos := len(resp.Body) - len(body)
			for _, e := range frameEnds {
				if e > pos {
					if e-pos < n {
						n = e - pos
					}
					break
				}
			}
		}
		if b.WriteChunk > 0 && n > b.WriteChunk {
			n = b.WriteChunk
		}
		if i < len(b.WriteSplits) {
			if s := b.WriteSplits[i]; s > 0 && s < n {
				n = s
			}
			i++
		}
		if b.EmptyWrites {
			_, _ = w.Write(nil)
			_, _ = w.Write([]byte{})
		}
		if _, err := w.Write(body[:n]); err != nil {
			break
		}
		body = body[n:]
		writes++
		if b.CloseBody && b.CloseAfterWrites > 0 && writes == b.CloseAfterWrites && resp.reqBody != nil {
			_ = resp.reqBody.Close()
		}
		if b.ReadAfterWrites > 0 && writes == b.ReadAfterWrites && resp.reqBody != nil {
			// like a streaming handler that reads its input only now - and carries on whatever the outcome
			_, _, _ = readAll(resp.reqBody, b.ReadBuf)
			requestRead = true
		}
		if fl != nil && b.FlushEvery > 0 && writes%b.FlushEvery == 0 {
			fl.Flush()
		}
	}
	if b.ReadAfterWrites > 0 && !requestRead && resp.reqBody != nil {
		_, _, _ = readAll(resp.reqBody, b.ReadBuf)
	}
	for k, vals := range resp.Trailer {
		key := k
		if !declared {
			key = http.TrailerPrefix + k
			if b.TrailerCase == "lower" && !strings.HasPrefix(k, "Grpc-") {
				// application metadata as grpc-go's handler writes it: the key goes into the map as spelled (lower
				// case), not canonicalised; the protocol's own status keys keep their canonical spelling
				h[http.TrailerPrefix+strings.ToLower(k)] = append(h[http.TrailerPrefix+strings.ToLower(k)], vals...)
				continue
			}
		}
		for _, val := range vals {
			h.Add(key, val)
		}
	}
	if b.WriteAfter {
		_, _ = w.Write([]byte("late bytes after the end"))
		w.WriteHeader(500)
		if fl != nil {
			fl.Flush()
		}
	}
}

// restRawCode: a raw status text can only be expressed by a REST backend when
// it is a positive int32.
func restRawCode(b *Backend) (int32, bool) {
	if b.CodeRaw == "" {
		return 0, false
	}
	n, err := strconv.ParseInt(b.CodeRaw, 10, 32)
	if err != nil || n <= 0 {
		return 0, false
	}
	return int32(n), true
}

// connectRawCode: Connect spells codes without a name as "code_<n>".
func connectRawCode(raw string) string {
	if n, err := strconv.ParseUint(raw, 10, 32); err == nil {
		return "code_" + strconv.FormatUint(n, 10)
	}
	return raw
}

// ---- small helpers -----------------------------------------------------------------

func protoName(s string) protoreflect.Name { return protoreflect.Name(s) }

func setHTTPBody(m protoreflect.Message, contentType string, data []byte) {
	fs := m.Descriptor().Fields()
	m.Set(fs.ByName("content_type"), protoreflect.ValueOfString(contentType))
	m.Set(fs.ByName("data"), protoreflect.ValueOfBytes(data))
}

func jsonStrictUnmarshal(data []byte, m proto.Message) error {
	return protojson.Unmarshal(data, m)
}

var _ = url.Values{}
var _ = base64.StdEncoding
