package verifbench

import (
	"encoding/json"
	"fmt"
	"strings"
	"testing"

	"pgregory.net/rapid"
)

// C19 - GET is accepted and issued only for side-effect-free methods.

const ruleC19 = "rapid draws Connect GET (and REST GET) client requests on unary methods of every idempotency level (NO_SIDE_EFFECTS, IDEMPOTENT, unspecified), with codecs proto (stable, binary), json (stable, text) and text (no stable encoding), optional compression, base64/plain and padded/unpadded message parameters, schema-driven messages, and - as a metamorphic triple - the service's MaxGetURLBytes set to the exact length of the URL observed under a large limit minus one, exactly, and plus one. Oracle: inbound, a GET on a method that is not side-effect-free gets 405 with an Allow header and no dispatch, otherwise the backend-decoded message equals the sent one; outbound to a Connect backend, the request is a GET iff the client's request was a GET, the method is side-effect-free, the backend codec has a stable encoding and len(path)+1+len(query) <= limit - then without body and with a query that decodes to the message - and a POST with the message in the body in every other case. Non-trivial = limit within +-1 of the URL length or exactly one precondition fails; distinct by hash(method, codec, compression, limit delta, message)."

type getCase struct {
	Sc    Scenario `json:"scenario"`
	Delta int      `json:"limit_delta"` // MaxGetURL = observed URL length + Delta (0 none: keep config)
	Probe bool     `json:"probe"`       // run first with a large limit to learn the URL length
}

func init() {
	registerProp(&propDef{ID: "C19", Rule: ruleC19, Replay: func(raw json.RawMessage) (*CheckResult, error) {
		var c getCase
		if err := json.Unmarshal(raw, &c); err != nil {
			return nil, err
		}
		return checkC19(&c), nil
	}})
}

func TestC19(t *testing.T) {
	rapid.Check(t, func(t *rapid.T) {
		form := rapid.SampledFrom([]string{FormConnectGet, FormConnectGet, FormConnectGet, FormREST, FormConnectUnary, FormGRPC}).Draw(t, "c19_form")
		o := genOpts{maxBlob: 24, forms: []string{form}, allowBig: true}
		if form == FormConnectGet {
			// GET on every unary method, also those that are not side-effect-free
			o.methods = nil
		}
		sc := genScenario(t, o)
		c := &sc.Client
		sc.Config.Unknown = rapid.IntRange(0, 2).Draw(t, "c19_unknown_handler") == 0
		if form == FormConnectGet {
			c.Method = rapid.SampledFrom([]string{"UnaryGet", "Params", "Page", "UnaryIdem", "Unary", "UnaryPlain", "UnaryField"}).Draw(t, "get_method")
			mi := lookupMethod(benchService, c.Method)
			c.Msgs = [][]byte{mustMarshal(genMessage(t, mi.In, "get_req", defaultMsgOpts))}
			sc.Backend.Msgs = [][]byte{mustMarshal(genMessage(t, mi.Out, "get_resp", defaultMsgOpts))}
			sc.Backend.MsgRaw = []bool{false}
		}
		if form == FormREST {
			// REST bindings that use GET
			c.Method = rapid.SampledFrom([]string{"UnaryGet", "Params", "Page"}).Draw(t, "rest_get_method")
			c.Binding = 0
			mi := lookupMethod(benchService, c.Method)
			m := genMessage(t, mi.In, "rest_req", defaultMsgOpts)
			restProject(t, flatBindings(benchService, c.Method)[0], m, "proj")
			c.Msgs = [][]byte{mustMarshal(m)}
			sc.Backend.Msgs = [][]byte{mustMarshal(genMessage(t, mi.Out, "rest_resp", defaultMsgOpts))}
			sc.Backend.MsgRaw = []bool{false}
		}
		// outbound decisions are about Connect backends: bias the configuration towards them
		if rapid.IntRange(0, 3).Draw(t, "force_connect_target") != 0 {
			sc.Config.Protocols = []string{ProtoConnect}
		}
		gc := &getCase{Sc: *sc}
		switch rapid.IntRange(0, 3).Draw(t, "limit_mode") {
		case 0:
		case 1:
			gc.Sc.Config.MaxGetURL = uint32(rapid.SampledFrom([]int{1, 16, 64, 100, 200, 500, 8192}).Draw(t, "fixed_limit"))
		default:
			gc.Probe = true
			gc.Delta = rapid.SampledFrom([]int{-1, 0, 1, -1, 0, -20, 7}).Draw(t, "limit_delta")
		}
		judge(t, "C19", gc, checkC19(gc))
	})
}

func stableCodec(name string) bool { return name == CodecProto || name == CodecJSON }

func checkC19(gc *getCase) *CheckResult {
	res := &CheckResult{}
	sc := &gc.Sc
	c := &sc.Client
	limit := int(sc.Config.MaxGetURL)
	if gc.Probe {
		probe := cloneScenario(sc)
		probe.Config.MaxGetURL = 1 << 22
		po := runScenario(probe)
		if po.BuildErr != "" || po.ConfigErr != "" {
			res.Skipped = true
			return res
		}
		if po.Backend == nil || po.Backend.Snap.Method != "GET" || po.Backend.Protocol != ProtoConnect {
			// nothing to measure: no GET was issued even with a huge limit
			gc.Probe = false
		} else {
			n := len(po.Backend.EscapedPath) + 1 + len(po.Backend.Snap.RawQuery)
			limit = n + gc.Delta
			if limit < 1 {
				limit = 1
			}
			sc = cloneScenario(sc)
			sc.Config.MaxGetURL = uint32(limit)
			c = &sc.Client
		}
	}
	if limit == 0 {
		limit = 8 * 1024
	}
	out := runScenario(sc)
	if out.BuildErr != "" || out.ConfigErr != "" {
		res.Skipped = true
		return res
	}
	if panicViolation(res, out) {
		return res
	}
	cv := out.Client
	view := out.Backend
	mi := out.Sent.MI
	clientGET := out.Sent.Method == "GET"
	res.Key = fmt.Sprintf("%s|%s|%s|%s|%d|%v|%x", c.Form, c.Method, c.Codec, c.Compression, gc.Delta, gc.Probe, c.Msgs)
	res.Sample = map[string]any{"form": c.Form, "method": c.Method, "side_effect_free": mi != nil && mi.NoSideFx, "codec": c.Codec, "compression": c.Compression,
		"limit": limit, "limit_delta": gc.Delta, "probed": gc.Probe, "client_status": cv.Status}
	// ---- inbound ----
	if c.Form == FormConnectGet && mi != nil && !mi.NoSideFx {
		res.class("inbound get_on_side_effects status=%d", cv.Status)
		res.NonTrivial = true
		if out.Invocations > 0 {
			res.violate("get_dispatched", "c19:inbound", "Connect GET on %s (not side-effect-free) was dispatched to the handler", c.Method)
		}
		if out.UnknownCalls > 0 {
			res.violate("get_dispatched", "c19:inbound", "Connect GET on %s (not side-effect-free) was handed to the unknown-endpoint handler instead of being refused with 405", c.Method)
		}
		if cv.Status != 405 {
			res.violate("get_status", "c19:inbound", "Connect GET on %s (not side-effect-free) answered %d, want 405", c.Method, cv.Status)
		} else if strings.TrimSpace(out.Rec.Head.Get("Allow")) == "" {
			res.violate("get_allow", "c19:inbound", "405 without an Allow header")
		} else if !strings.Contains(out.Rec.Head.Get("Allow"), "POST") {
			res.violate("get_allow", "c19:inbound", "Allow header %q does not name POST", out.Rec.Head.Get("Allow"))
		}
		return res
	}
	if view == nil {
		res.class("not_invoked status=%d", cv.Status)
		if c.Form == FormConnectGet && cv.Status == 405 {
			res.violate("get_refused", "c19:inbound", "Connect GET on side-effect-free method %s was refused with 405", c.Method)
		}
		return res
	}
	if c.Form == FormConnectGet && view.Protocol != ProtoREST {
		if len(view.Msgs) != 1 || view.Msgs[0] == nil || canon(view.Msgs[0]) != canon(out.Sent.Msgs[0]) {
			if !(len(view.Msgs) == 1 && view.Msgs[0] == nil && !cv.OK) {
				res.violate("get_message", "c19:inbound:message", "message decoded from the GET query differs from what a POST would carry: backend saw %s, client sent %s (problems %v)", sampleMsgs(view.Msgs), msgJSON(out.Sent.Msgs[0]), view.Problems)
			}
		}
	}
	// ---- outbound (Connect unary backends only) ----
	if view.Protocol != ProtoConnect || view.Sub == "stream" {
		res.class("outbound other target=%s", view.Protocol)
		return res
	}
	if out.Direct {
		// pass-through: the client's own request is forwarded untouched (C13); no GET/POST decision is taken
		res.class("outbound passthrough")
		return res
	}
	isGET := view.Snap.Method == "GET"
	nse := mi != nil && mi.NoSideFx
	stable := stableCodec(view.Codec)
	urlLen := len(view.EscapedPath) + 1 + len(view.Snap.RawQuery)
	failing := 0
	for _, ok := range []bool{clientGET, nse, stable} {
		if !ok {
			failing++
		}
	}
	res.NonTrivial = failing == 1 || (gc.Probe && gc.Delta >= -1 && gc.Delta <= 1)
	res.class("outbound clientGET=%v nse=%v stable=%v backend=%s delta=%d probed=%v", clientGET, nse, stable, view.Snap.Method, gc.Delta, gc.Probe)
	if isGET {
		switch {
		case !clientGET:
			res.violate("get_issued", "c19:outbound:client_not_get", "backend received GET although the client's request was %s", out.Sent.Method)
		case !nse:
			res.violate("get_issued", "c19:outbound:not_nse", "backend received GET for %s which is not side-effect-free", c.Method)
		case !stable:
			res.violate("get_issued", "c19:outbound:unstable", "backend received GET with codec %q which has no stable encoding", view.Codec)
		case urlLen > limit:
			res.violate("get_issued", "c19:outbound:limit", "backend received a GET whose URL has %d bytes, limit is %d", urlLen, limit)
		}
		if len(view.Body) > 0 {
			res.violate("get_body", "c19:outbound:body", "GET request carries %d body bytes", len(view.Body))
		}
		for _, p := range view.Problems {
			res.violate("get_invalid", "c19:outbound:invalid", "GET request to the backend is not valid: %s", p)
		}
	} else {
		if view.Snap.Method != "POST" {
			res.violate("bad_method", "c19:outbound:method", "Connect backend received method %s", view.Snap.Method)
		}
		if clientGET && nse && stable && gc.Probe && gc.Delta >= 0 {
			res.violate("get_not_issued", "c19:outbound:limit", "all preconditions hold and the URL fits (limit = observed length %+d) but the backend received POST", gc.Delta)
		}
		if view.Snap.RawQuery != "" {
			res.violate("post_query", "c19:outbound:query", "POST to the backend carries a query string %q", view.Snap.RawQuery)
		}
		if strings.Contains(featureSig(sc, view, "request"), "rawframe") {
			// an uncompressed frame of an enveloped client toward an un-enveloped backend: known finding
			// D10, reported by C01/C02/C03/C09; nothing to do with the GET/POST decision
			res.class("outbound_d10_region")
		} else if clientGET {
			for _, p := range view.Problems {
				res.violate("post_invalid", "c19:outbound:invalid", "POST request to the backend (in place of a GET) is not valid: %s", p)
			}
		}
	}
	if cv.OK && (len(view.Msgs) != 1 || view.Msgs[0] == nil || canon(view.Msgs[0]) != canon(normRESTPresence(restBody(out), out.Sent.Msgs)[0])) {
		if !(c.Form == FormREST) {
			res.violate("message", "c19:outbound:message", "backend message differs from the client's: %s vs %s", sampleMsgs(view.Msgs), msgJSON(out.Sent.Msgs[0]))
		}
	}
	return res
}

func restBody(out *Outcome) string {
	if out.Sent != nil && out.Sent.Rule != nil {
		return out.Sent.Rule.Body
	}
	return ""
}
