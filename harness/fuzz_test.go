package verifbench

// Native (coverage-guided) fuzz targets for the thorough tier of C09 and C11.
//
//   FuzzC09Wire / FuzzC11Wire  byte-level: a base scenario (picked from a fixed, deterministically
//       generated table of valid exchanges covering every client form x target pairing) whose
//       request or response body is replaced by, or spliced with, the fuzzer's bytes. The
//       property's own oracle runs inside the target (reference decoder re-reads the bytes).
//       The corpus is seeded with the valid bodies themselves and with hostile constants.
//   FuzzC09Rapid / FuzzC11Rapid  the rapid property driven by the fuzzer's bytes as its random
//       stream (rapid.MakeFuzz), so coverage feedback steers the same generators.
//
// A failing input is saved by 'go test' under testdata/fuzz/<target>/ of the working directory;
// judge() additionally writes the scenario as an ordinary JSON replay file.

import (
	"encoding/binary"
	"sync"
	"testing"

	"pgregory.net/rapid"
)

const nFuzzBases = 96

var (
	fuzzBasesOnce sync.Once
	fuzzBases     []*Scenario
)

func fuzzBaseScenarios() []*Scenario {
	fuzzBasesOnce.Do(func() {
		gen := rapid.Custom(func(t *rapid.T) *Scenario {
			o := genOpts{maxBlob: 16, backendKinds: []string{"ok", "ok", "ok", "error"}, noText: true}
			sc := genScenario(t, o)
			sc.Config.MaxMsg = 1 << 20
			return sc
		})
		for i := 0; len(fuzzBases) < nFuzzBases && i < 4*nFuzzBases; i++ {
			sc := gen.Example(i + 1)
			out := runScenario(cloneScenario(sc))
			if out.BuildErr != "" || out.ConfigErr != "" || out.Backend == nil || out.Panic != "" || out.Hang {
				continue
			}
			fuzzBases = append(fuzzBases, sc)
		}
	})
	return fuzzBases
}

var hostileBodies = [][]byte{
	{}, {0}, {1}, {0, 0, 0, 0}, {0, 0, 0, 0, 0}, {1, 0, 0, 0, 0}, {2, 0, 0, 0, 0}, {0x80, 0, 0, 0, 0}, {0x81, 0, 0, 0, 1, 0},
	{0, 0xff, 0xff, 0xff, 0xff}, {0, 0x7f, 0xff, 0xff, 0xff}, {0, 0, 0, 0, 5, 1, 2}, {9, 0, 0, 0, 1, 0}, {0xff, 0, 0, 0, 0},
	{0, 0, 0, 0, 1, 0xff}, {0, 0, 0, 0, 2, '{', '}'}, {2, 0, 0, 0, 2, '{', '}'}, {2, 0, 0, 0, 4, 'n', 'u', 'l', 'l'},
	[]byte(`{"error":{"code":"bogus"}}`), []byte(`{"code":17}`), []byte("grpc-status: 17\r\n"), []byte("grpc-status:\r\n\r\n"),
	{0x1f, 0x8b, 8, 0, 0, 0, 0, 0, 0, 0xff}, {0x78, 0x9c},
}

func addWireSeeds(f *testing.F) {
	bases := fuzzBaseScenarios()
	for i, sc := range bases {
		enc, err := encodeRequest(cloneScenario(sc))
		if err == nil && enc.Body != nil {
			f.Add(uint16(i), true, false, uint16(0), enc.Body)
		}
		out := runScenario(cloneScenario(sc))
		if out.Backend != nil {
			if resp := buildResponse(sc, out.Backend); resp != nil && len(resp.Body) > 0 {
				f.Add(uint16(i), false, false, uint16(0), resp.Body)
			}
		}
	}
	for i, h := range hostileBodies {
		f.Add(uint16(i*7), i%2 == 0, false, uint16(0), h)
		f.Add(uint16(i*11), i%2 == 1, true, uint16(i), h)
	}
	var big [9]byte
	binary.BigEndian.PutUint32(big[1:], 1<<31)
	f.Add(uint16(3), true, true, uint16(0), big[:])
	f.Add(uint16(3), false, true, uint16(0), big[:])
}

func wireCase(base uint16, onRequest, splice bool, at uint16, data []byte) *Scenario {
	bases := fuzzBaseScenarios()
	sc := cloneScenario(bases[int(base)%len(bases)])
	if len(data) > 1<<16 {
		data = data[:1<<16]
	}
	f := &Fault{Kind: FaultReplace, Data: append([]byte{}, data...)}
	if splice {
		f.Kind, f.At = FaultSplice, int(at)
	}
	if onRequest {
		sc.Client.Fault = f
	} else {
		sc.Backend.Fault = f
	}
	return sc
}

func FuzzC09Wire(f *testing.F) {
	addWireSeeds(f)
	f.Fuzz(func(t *testing.T, base uint16, onRequest, splice bool, at uint16, data []byte) {
		sc := wireCase(base, onRequest, splice, at, data)
		judge(t, "C09", sc, checkC09(sc))
	})
}

func FuzzC11Wire(f *testing.F) {
	addWireSeeds(f)
	f.Fuzz(func(t *testing.T, base uint16, onRequest, splice bool, at uint16, data []byte) {
		sc := wireCase(base, onRequest, splice, at, data)
		if at%5 == 0 {
			sc.Backend.IgnoreReadErr = true // the backend answers per script even if the request was unreadable
		}
		judge(t, "C11", sc, checkC11(sc))
	})
}

func FuzzC09Rapid(f *testing.F) { f.Fuzz(rapid.MakeFuzz(propC09)) }
func FuzzC11Rapid(f *testing.F) { f.Fuzz(rapid.MakeFuzz(propC11)) }
