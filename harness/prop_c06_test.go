package verifbench

import (
	"encoding/json"
	"fmt"
	"sort"
	"strings"
	"testing"

	"google.golang.org/protobuf/reflect/protoreflect"
	"pgregory.net/rapid"
)

// C06 - routing dispatches exactly the method whose binding matches the request.

const ruleC06 = "rapid draws route tables from the google.api.http template grammar over a small alphabet (literals incl. ones needing escapes, *, **, {f}, {f=lit/*}, {a.b=**}, verbs, custom kinds incl. '*', deliberately overlapping variants of one another) bound through WithRules to a dynamic service, and requests: instantiations of table templates with arbitrary decoded segment strings (every reserved character, unicode, '/', ':', '%') escaped canonically in literal positions and in one of several valid styles in capture positions; structural mutations (extra / missing / empty segments, trailing slash, wrong or missing verb); RPC-style paths and near misses; all HTTP methods. Each table is also registered with its rules in a random permutation. Oracle: an independent three-valued reference matcher over the raw path gives the set M of matching bindings and their captures (decode once, %2F kept in multi-segment captures); dispatched => binding in M with the request's method and the backend message carries exactly those captures; M empty => 404; one template in M => its binding for the method or 405 with non-empty Allow within that template's methods; an all-literal template in M with the method wins; permuted registration => identical outcome. Non-trivial = M non-empty with a capture needing percent-decoding, or two or more templates in M; distinct by hash(table, method, path)."

type routeCase struct {
	Rules  []RuleSpec `json:"rules"`
	Perm   []int      `json:"perm"`
	Method string     `json:"method"`
	Path   string     `json:"path"` // raw (escaped) request path, may include ?query
	RPC    string     `json:"rpc,omitempty"` // RPC-style probe: method name expected (or "" for a near miss)
}

func init() {
	registerProp(&propDef{ID: "C06", Rule: ruleC06, Replay: func(raw json.RawMessage) (*CheckResult, error) {
		var c routeCase
		if err := json.Unmarshal(raw, &c); err != nil {
			return nil, err
		}
		return checkC06(&c), nil
	}})
}

// route service methods and the string fields usable as captures
var routeTargets = []struct {
	method string
	fields []string
}{
	{"A", []string{"string_value", "recursive.string_value", "recursive.recursive.string_value"}},
	{"B", []string{"string_value", "recursive.string_value"}},
	{"C", []string{"string_value", "recursive.string_value"}},
	{"D", []string{"string_value", "recursive.string_value"}},
	{"Get", []string{"string_value", "msg_value.string_value", "opt_string_value"}},
	{"GetMore", []string{"string_value", "msg_value.string_value", "opt_string_value"}},
	{"GetMoreStill", []string{"name"}},
}

var litPool = []string{"a", "b", "v1", "items", "x y", "c:d", "é", "a.b", "~t", "100%"}
var verbPool = []string{"", "", "", "go", "stop", "x y"}

func genTemplateFor(t *rapid.T, fields []string, label string) string {
	n := rapid.IntRange(1, 4).Draw(t, label+"_nseg")
	used := map[string]bool{}
	var segs []string
	for i := 0; i < n; i++ {
		last := i == n-1
		k := rapid.IntRange(0, 9).Draw(t, label+"_kind")
		freeField := ""
		for _, f := range fields {
			if !used[f] {
				freeField = f
				break
			}
		}
		switch {
		case k <= 3 || (k >= 6 && freeField == ""):
			segs = append(segs, pctEncode(rapid.SampledFrom(litPool).Draw(t, label+"_lit")))
		case k == 4:
			segs = append(segs, "*")
		case k == 5 && last:
			segs = append(segs, "**")
		case k == 5:
			segs = append(segs, "*")
		case k == 6:
			used[freeField] = true
			segs = append(segs, "{"+freeField+"}")
		case k == 7:
			used[freeField] = true
			segs = append(segs, "{"+freeField+"="+pctEncode(rapid.SampledFrom(litPool).Draw(t, label+"_vlit"))+"/*}")
		case k == 8 && last:
			used[freeField] = true
			segs = append(segs, "{"+freeField+"=**}")
		case k == 9 && last:
			used[freeField] = true
			segs = append(segs, "{"+freeField+"="+pctEncode(rapid.SampledFrom(litPool).Draw(t, label+"_vlit2"))+"/**}")
		default:
			used[freeField] = true
			segs = append(segs, "{"+freeField+"=*}")
		}
	}
	tmpl := "/" + strings.Join(segs, "/")
	if v := rapid.SampledFrom(verbPool).Draw(t, label+"_verb"); v != "" {
		tmpl += ":" + pctEncode(v)
	}
	return tmpl
}

// variantOf derives an overlapping template: one literal replaced by a wildcard or the tail by **.
func variantOf(t *rapid.T, tmpl string, label string) string {
	verb := ""
	body := tmpl
	if i := strings.LastIndex(tmpl, ":"); i > strings.LastIndex(tmpl, "/") && !strings.Contains(tmpl[i:], "}") {
		body, verb = tmpl[:i], tmpl[i:]
	}
	if strings.Contains(body, "{") {
		return tmpl
	}
	segs := strings.Split(strings.TrimPrefix(body, "/"), "/")
	i := rapid.IntRange(0, len(segs)-1).Draw(t, label+"_vi")
	switch rapid.IntRange(0, 2).Draw(t, label+"_vk") {
	case 0:
		if segs[i] != "**" {
			segs[i] = "*"
		}
	case 1:
		segs = append(segs[:i], "**")
	default:
		if segs[i] == "*" {
			segs[i] = "a"
		} else if segs[i] != "**" {
			segs[i] = "*"
		}
	}
	return "/" + strings.Join(segs, "/") + verb
}

var httpMethods = []string{"GET", "POST", "PUT", "DELETE", "PATCH"}

func genRouteTable(t *rapid.T) []RuleSpec {
	n := rapid.IntRange(1, 6).Draw(t, "n_rules")
	var rules []RuleSpec
	for i := 0; i < n; i++ {
		tg := rapid.SampledFrom(routeTargets).Draw(t, "rule_target")
		var tmpl string
		src := ""
		if len(rules) > 0 && rapid.IntRange(0, 2).Draw(t, "rule_variant") == 0 {
			src = rules[rapid.IntRange(0, len(rules)-1).Draw(t, "variant_of")].Template
		}
		if src != "" && !strings.Contains(src, "{") {
			tmpl = variantOf(t, src, "variant")
		} else if src != "" {
			// a template with variables: overlap it with a variable-free shadow of the same shape
			tmpl = variableFreeShadow(src)
		} else {
			tmpl = genTemplateFor(t, tg.fields, "tmpl")
		}
		r := RuleSpec{Selector: routeService + "." + tg.method, Template: tmpl}
		switch rapid.IntRange(0, 7).Draw(t, "rule_method") {
		case 6:
			r.Method, r.Custom = "*", true
		case 7:
			r.Method, r.Custom = "LIST", true
		default:
			r.Method = rapid.SampledFrom(httpMethods).Draw(t, "rule_http_method")
		}
		if r.Method != "GET" && r.Method != "DELETE" && rapid.Bool().Draw(t, "rule_body") {
			r.Body = "*"
		}
		rules = append(rules, r)
	}
	return rules
}

var capturePool = []string{"a", "b", "x y", "c:d", "é", "100%", "a/b", "q?x=1", "#f", "a+b", "%41", "%2F", "~", "A.b-c_d", "日本", ";", "=", "&", "'", "*", "**", "{x}", ":", "v1", "items"}

// escStyle renders a decoded capture segment in one of several valid escapings.
func escStyle(t *rapid.T, s string, label string) string {
	switch rapid.IntRange(0, 2).Draw(t, label) {
	case 0:
		return pctEncode(s)
	case 1:
		// sub-delims and a few others left raw, as url.PathEscape does
		var sb strings.Builder
		for i := 0; i < len(s); i++ {
			c := s[i]
			if isUnreserved(c) || strings.IndexByte("$&+,;=@!'()*", c) >= 0 {
				sb.WriteByte(c)
			} else {
				fmt.Fprintf(&sb, "%%%02X", c)
			}
		}
		return sb.String()
	default:
		var sb strings.Builder
		for i := 0; i < len(s); i++ {
			fmt.Fprintf(&sb, "%%%02x", s[i]) // everything escaped, lower-case hex
		}
		return sb.String()
	}
}

func instantiate(t *rapid.T, tm *Template, label string) string {
	var segs []string
	for _, s := range tm.Segs {
		switch s.Kind {
		case segLit:
			segs = append(segs, pctEncode(s.Lit))
		case segStar:
			segs = append(segs, escStyle(t, rapid.SampledFrom(capturePool).Draw(t, label+"_cap"), label+"_style"))
		case segDStar:
			n := rapid.IntRange(1, 3).Draw(t, label+"_dn")
			for j := 0; j < n; j++ {
				segs = append(segs, escStyle(t, rapid.SampledFrom(capturePool).Draw(t, label+"_dcap"), label+"_dstyle"))
			}
		}
	}
	p := "/" + strings.Join(segs, "/")
	if tm.Verb != "" {
		p += ":" + pctEncode(tm.Verb)
	}
	return p
}

func TestC06(t *testing.T) {
	rapid.Check(t, func(t *rapid.T) {
		c := &routeCase{Rules: genRouteTable(t)}
		c.Perm = rapid.Permutation(intRange(len(c.Rules))).Draw(t, "perm")
		c.Method = rapid.SampledFrom(append(httpMethods, "GET", "POST", "LIST", "OPTIONS")).Draw(t, "req_method")
		switch rapid.IntRange(0, 9).Draw(t, "req_kind") {
		case 0: // RPC-style
			m := rapid.SampledFrom([]string{"A", "B", "Get", "GetMore", "GetMoreStill", "Nope", "Ge", "GetMoreS"}).Draw(t, "rpc_method")
			c.Path = "/" + routeService + "/" + m
			c.RPC = m
			c.Method = "POST"
		default:
			r := c.Rules[rapid.IntRange(0, len(c.Rules)-1).Draw(t, "req_rule")]
			tm, err := parseTemplate(r.Template)
			if err != nil {
				t.Skip("generator produced an unparsable template")
			}
			c.Path = instantiate(t, tm, "inst")
			if rapid.Bool().Draw(t, "use_rule_method") && r.Method != "*" {
				c.Method = r.Method
			}
			switch rapid.IntRange(0, 11).Draw(t, "path_mutation") {
			case 0:
				c.Path += "/" + pctEncode(rapid.SampledFrom(capturePool).Draw(t, "extra_seg"))
			case 1:
				if i := strings.LastIndex(c.Path, "/"); i > 0 {
					c.Path = c.Path[:i]
				}
			case 2:
				c.Path += "/"
			case 3:
				if i := strings.LastIndex(c.Path, ":"); i > 0 {
					c.Path = c.Path[:i]
				} else {
					c.Path += ":go"
				}
			case 4:
				c.Path = strings.Replace(c.Path, "/", "//", 1)
			}
		}
		judge(t, "C06", c, checkC06(c))
	})
}

func intRange(n int) []int {
	out := make([]int, n)
	for i := range out {
		out[i] = i
	}
	return out
}

type routeObs struct {
	status   int
	allow    string
	method   string // dispatched RPC method ("" none)
	msg      string // canonical backend message
	unknown  bool
	cfgErr   string
	panicked *Outcome
	view     *BackendView
}

func routeRun(rules []RuleSpec, c *routeCase) routeObs {
	sc := &Scenario{}
	sc.Config = Config{Protocols: []string{ProtoGRPC}, Codecs: []string{CodecProto}, Compressions: []string{}, Rules: rules, WithRoute: true}
	sc.Client = Client{Form: FormREST, Service: routeService, Method: "A", UseRaw: true, RawMethod: c.Method, RawTarget: c.Path, Codec: CodecJSON}
	if c.RPC != "" {
		sc.Client.RawHeader = []KV{{"Content-Type", "application/grpc+proto"}, {"Te", "trailers"}}
		sc.Client.RawBody = []byte{0, 0, 0, 0, 0}
		sc.Client.HTTP2 = true
		sc.Client.Form = FormGRPC
	}
	// REST probes carry no body at all: valid for rules with and without a body selector
	sc.Backend = Backend{Kind: "ok", Msgs: [][]byte{{}}}
	out := runScenario(sc)
	ob := routeObs{cfgErr: out.ConfigErr}
	if out.ConfigErr != "" || out.BuildErr != "" {
		if out.BuildErr != "" {
			ob.cfgErr = "build: " + out.BuildErr
		}
		return ob
	}
	if out.Panic != "" || out.Hang {
		ob.panicked = out
		return ob
	}
	ob.status = out.Rec.Status
	ob.allow = out.Rec.Head.Get("Allow")
	if out.Backend != nil {
		ob.view = out.Backend
		if out.Backend.MI != nil {
			ob.method = out.Backend.MI.Name
		} else {
			ob.method = "?" + out.Backend.Snap.Path
		}
		if len(out.Backend.Msgs) > 0 && out.Backend.Msgs[0] != nil {
			ob.msg = canon(out.Backend.Msgs[0])
		}
	}
	return ob
}

func setPathField(m protoreflect.Message, path string, val string) bool {
	parts := strings.Split(path, ".")
	fds, err := resolveFieldPath(m.Descriptor(), parts, false)
	if err != nil {
		return false
	}
	cur := m
	for _, fd := range fds[:len(fds)-1] {
		cur = cur.Mutable(fd).Message()
	}
	cur.Set(fds[len(fds)-1], protoreflect.ValueOfString(val))
	return true
}

func checkC06(c *routeCase) *CheckResult {
	res := &CheckResult{}
	ob := routeRun(c.Rules, c)
	if ob.cfgErr != "" {
		res.class("table_rejected")
		res.Skipped = true
		return res
	}
	if ob.panicked != nil {
		panicViolation(res, ob.panicked)
		return res
	}
	res.Key = fmt.Sprintf("%v|%s|%s", c.Rules, c.Method, c.Path)
	// RPC-style probes
	if c.RPC != "" {
		known := lookupMethod(routeService, c.RPC) != nil
		res.class("rpc known=%v status=%d", known, ob.status)
		res.NonTrivial = true
		res.Sample = map[string]any{"rpc_path": c.Path, "dispatched": ob.method, "status": ob.status}
		if known && ob.method != c.RPC {
			res.violate("rpc_route", "c06:rpc", "POST %s must reach method %s, reached %q (status %d)", c.Path, c.RPC, ob.method, ob.status)
		}
		if !known && ob.method != "" {
			res.violate("rpc_route", "c06:rpc", "POST %s names no method but %q was invoked", c.Path, ob.method)
		}
		if !known && ob.status != 404 {
			res.violate("rpc_route", "c06:rpc", "POST %s names no method: want 404, got %d", c.Path, ob.status)
		}
		return res
	}
	// reference matching
	rawPath := c.Path
	if i := strings.IndexByte(rawPath, '?'); i >= 0 {
		rawPath = rawPath[:i]
	}
	type cand struct {
		rule  RuleSpec
		tm    *Template
		mr    matchResult
		index int
	}
	var yes, maybe []cand
	for i, r := range c.Rules {
		tm, err := parseTemplate(r.Template)
		if err != nil {
			res.Skipped = true
			return res
		}
		mr := matchTemplate(tm, rawPath)
		switch mr.Level {
		case mYes:
			yes = append(yes, cand{r, tm, mr, i})
		case mMaybe:
			maybe = append(maybe, cand{r, tm, mr, i})
		}
	}
	all := append(append([]cand{}, yes...), maybe...)
	templates := map[string]bool{}
	needsDecode := false
	for _, cd := range all {
		templates[cd.rule.Template] = true
		for _, v := range cd.mr.Captures {
			if strings.Contains(rawPath, "%") && v != "" {
				needsDecode = true
			}
		}
	}
	res.NonTrivial = (len(all) > 0 && needsDecode) || len(templates) >= 2
	res.class("yes=%d maybe=%d templates=%d status=%d dispatched=%v", len(yes), len(maybe), len(templates), ob.status, ob.method != "")
	res.Sample = map[string]any{"rules": c.Rules, "request": c.Method + " " + c.Path, "matching_yes": len(yes), "matching_maybe": len(maybe), "status": ob.status, "dispatched": ob.method}
	methodOK := func(r RuleSpec) bool { return r.Method == c.Method || r.Method == "*" }
	// 1. dispatched => binding in M with the method, and exactly its captures
	if ob.method != "" {
		found := false
		var wantDesc []string
		for _, cd := range all {
			if !methodOK(cd.rule) || !strings.HasSuffix(cd.rule.Selector, "."+ob.method) {
				continue
			}
			mi := lookupMethod(routeService, ob.method)
			want := newMessage(mi.In)
			okSet := true
			for k, v := range cd.mr.Captures {
				if !setPathField(want.ProtoReflect(), k, v) {
					okSet = false
				}
			}
			if !okSet {
				continue
			}
			wantDesc = append(wantDesc, msgJSON(want))
			if canon(want) == ob.msg {
				found = true
			}
		}
		if !found {
			if len(wantDesc) == 0 {
				res.violate("misrouted", "c06:misrouted", "%s %s was dispatched to %s, but no binding of that method with this HTTP method matches the path (matching: %d certain, %d possible)", c.Method, c.Path, ob.method, len(yes), len(maybe))
			} else {
				got := "<undecodable>"
				if ob.view != nil && len(ob.view.Msgs) > 0 {
					got = msgJSON(ob.view.Msgs[0])
				}
				res.violate("captures", "c06:captures", "%s %s dispatched to %s with message %s; the matching binding(s) capture %v", c.Method, c.Path, ob.method, got, wantDesc)
			}
		}
	}
	// 2. nothing matches => 404
	if len(all) == 0 {
		if ob.method != "" || ob.status != 404 {
			res.violate("no_match", "c06:no_match", "%s %s matches no template: want 404, got status %d dispatched %q", c.Method, c.Path, ob.status, ob.method)
		}
		return res
	}
	// 3. exactly one template (all certain): its binding for the method, or 405 + Allow
	if len(maybe) == 0 && len(templates) == 1 {
		var withMethod *cand
		allowed := map[string]bool{}
		for i := range yes {
			allowed[yes[i].rule.Method] = true
			if methodOK(yes[i].rule) && (withMethod == nil || yes[i].rule.Method == c.Method) {
				withMethod = &yes[i]
			}
		}
		if withMethod != nil {
			wantMethod := withMethod.rule.Selector[strings.LastIndex(withMethod.rule.Selector, ".")+1:]
			exact := 0
			for i := range yes {
				if yes[i].rule.Method == c.Method {
					exact++
				}
			}
			if ob.method == "" {
				res.violate("not_dispatched", "c06:not_dispatched", "%s %s matches template %s which has a binding for the method, but status %d and no dispatch", c.Method, c.Path, withMethod.rule.Template, ob.status)
			} else if ob.method != wantMethod && exact <= 1 {
				res.violate("wrong_binding", "c06:wrong_binding", "%s %s must go to %s (template %s), went to %s", c.Method, c.Path, wantMethod, withMethod.rule.Template, ob.method)
			}
		} else {
			if ob.method != "" {
				res.violate("method_ignored", "c06:method_ignored", "%s %s: the only matching template has no binding for %s, yet %s was invoked", c.Method, c.Path, c.Method, ob.method)
			} else if ob.status != 405 {
				res.violate("want_405", "c06:405", "%s %s: template matches but not the method: want 405, got %d", c.Method, c.Path, ob.status)
			} else {
				al := splitList([]string{ob.allow})
				if len(al) == 0 {
					res.violate("allow", "c06:405", "405 without Allow header")
				}
				for _, a := range al {
					if !allowed[a] {
						res.violate("allow", "c06:405", "Allow names %q which the matching template %v does not have (has %v)", a, keys(templates), keys(allowed))
					}
				}
			}
		}
	}
	// 4. an all-literal template in M (certain) with the method wins over wildcard ones
	if len(maybe) == 0 && len(templates) >= 2 {
		var lit []cand
		for _, cd := range yes {
			if cd.tm.allLiteral() && methodOK(cd.rule) {
				lit = append(lit, cd)
			}
		}
		if len(lit) == 1 {
			want := lit[0].rule.Selector[strings.LastIndex(lit[0].rule.Selector, ".")+1:]
			if ob.method != want {
				res.violate("literal_precedence", "c06:precedence", "%s %s matches the all-literal template %s (method %s) and wildcard templates; the literal one must win, got dispatched=%q status=%d", c.Method, c.Path, lit[0].rule.Template, want, ob.method, ob.status)
			}
		}
	}
	// 5. registration order must not matter
	perm := make([]RuleSpec, len(c.Rules))
	if len(c.Perm) == len(c.Rules) {
		for i, j := range c.Perm {
			perm[i] = c.Rules[j]
		}
		ob2 := routeRun(perm, c)
		if ob2.cfgErr == "" && ob2.panicked == nil {
			if ob2.status != ob.status || ob2.method != ob.method || ob2.msg != ob.msg {
				res.violate("order_dependent", "c06:order", "%s %s: outcome depends on rule registration order: status %d/%d dispatched %q/%q", c.Method, c.Path, ob.status, ob2.status, ob.method, ob2.method)
			}
			a1, a2 := splitList([]string{ob.allow}), splitList([]string{ob2.allow})
			sort.Strings(a1)
			sort.Strings(a2)
			if strings.Join(a1, ",") != strings.Join(a2, ",") {
				res.violate("order_dependent", "c06:order", "%s %s: Allow header depends on rule registration order: %q vs %q", c.Method, c.Path, ob.allow, ob2.allow)
			}
		} else if ob2.cfgErr != "" {
			res.violate("order_dependent", "c06:order", "the same rules in another order are rejected by NewTranscoder: %s", ob2.cfgErr)
		}
	}
	return res
}

func keys(m map[string]bool) []string {
	var out []string
	for k := range m {
		out = append(out, k)
	}
	sort.Strings(out)
	return out
}

// variableFreeShadow replaces every variable of a template by the wildcards it stands for.
func variableFreeShadow(tmpl string) string {
	tm, err := parseTemplate(tmpl)
	if err != nil {
		return "/a"
	}
	var segs []string
	for _, sg := range tm.Segs {
		switch sg.Kind {
		case segLit:
			segs = append(segs, pctEncode(sg.Lit))
		case segStar:
			segs = append(segs, "*")
		default:
			segs = append(segs, "**")
		}
	}
	out := "/" + strings.Join(segs, "/")
	if tm.Verb != "" {
		out += ":" + pctEncode(tm.Verb)
	}
	return out
}
