package verifbench

import (
	"encoding/json"
	"fmt"
	"net/http"
	"strings"
	"testing"

	"google.golang.org/protobuf/proto"
	"google.golang.org/protobuf/reflect/protoreflect"
	"pgregory.net/rapid"
)

// C07 - REST binding follows google.api.http; to-REST-and-back is the identity.

const ruleC07 = "rapid draws HTTP rules over ParameterValues / AllTypes / HttpBody-carrying messages (body '*', body = message / repeated / scalar / well-known / HttpBody field, no body; response_body; single- and multi-segment and nested path variables of every scalar kind, enums, wrappers, Timestamp/Duration/FieldMask) and messages projected onto what the rule can carry. Four modes: (client) the request is rendered by the reference renderer (JSON or proto names, dotted paths, repeated values, every reserved character escaped, several base64/enum spellings) plus extra query parameters that override body/path fields, misfit values and unknown parameters - the backend-decoded message must equal the reference binder's result (body, then path variables, then query), misfits must be invalid_argument, and the HTTP response body must be the JSON of the response_body field; (backend) an RPC client's message is sent to a REST backend and (method, escaped path, query, body) re-parsed by the reference binder must equal the original or the RPC must fail; (chain) RPC -> REST -> RPC through two transcoders must be the identity. Non-trivial = a path variable or query parameter with a non-default value that needs escaping or is not a string; distinct by hash(mode, rule, message, extra parameters)."

type restCase struct {
	Mode string   `json:"mode"` // client | backend | chain
	Sc   Scenario `json:"scenario"`
}

func init() {
	registerProp(&propDef{ID: "C07", Rule: ruleC07, Replay: func(raw json.RawMessage) (*CheckResult, error) {
		var c restCase
		if err := json.Unmarshal(raw, &c); err != nil {
			return nil, err
		}
		return checkC07(&c), nil
	}})
}

// leaf fields usable as path variables / interesting query parameters
func paramLeafPaths(md protoreflect.MessageDescriptor, prefix string, depth int) []string {
	var out []string
	fs := md.Fields()
	for i := 0; i < fs.Len(); i++ {
		fd := fs.Get(i)
		if fd.IsList() || fd.IsMap() {
			continue
		}
		if isParamLeaf(fd) {
			out = append(out, prefix+string(fd.Name()))
			continue
		}
		if fd.Kind() == protoreflect.MessageKind && depth < 1 && !scalarWKT[string(fd.Message().FullName())] {
			switch fd.Message().FullName() {
			case "google.protobuf.Struct", "google.protobuf.Value", "google.protobuf.ListValue", "google.protobuf.Any", "google.api.HttpBody":
				continue
			}
			out = append(out, paramLeafPaths(fd.Message(), prefix+string(fd.Name())+".", depth+1)...)
		}
	}
	return out
}

var c07Targets = []struct {
	method   string
	bodies   []string
	respBody []string
}{
	{"A", []string{"*", "", "nested", "recursive", "double_list", "enum_list", "string_value", "timestamp", "double_value_list", "bytes_value", "int64_value"}, []string{"", "", "nested", "recursive", "double_list", "string_value"}},
	{"B", []string{"*", "", "recursive"}, []string{"", "recursive", "enum_list"}},
	{"Get", []string{"*", "", "msg_value", "string_list", "int32_to_string_map", "opt_msg_value", "msg_list", "bytes_value", "enum_value"}, []string{"", "", "msg_value", "string_list", "string_map", "msg_list", "int64_value"}},
	{"GetMoreStill", []string{"*", "", "file", "name"}, []string{"", "file", "note"}},
}

func genC07Rule(t *rapid.T) RuleSpec {
	tg := rapid.SampledFrom(c07Targets).Draw(t, "c7_target")
	mi := lookupMethod(routeService, tg.method)
	md := messageDescriptor(mi.In)
	leaves := paramLeafPaths(md, "", 0)
	r := RuleSpec{Selector: routeService + "." + tg.method}
	r.Method = rapid.SampledFrom([]string{"GET", "POST", "PUT", "PATCH", "DELETE"}).Draw(t, "c7_http")
	r.Body = rapid.SampledFrom(tg.bodies).Draw(t, "c7_body")
	if r.Method == "GET" || r.Method == "DELETE" {
		if rapid.IntRange(0, 3).Draw(t, "c7_get_body") != 0 {
			r.Body = ""
		}
	}
	r.ResponseBody = rapid.SampledFrom(tg.respBody).Draw(t, "c7_resp_body")
	segs := []string{"c7", pctEncode(rapid.SampledFrom([]string{"x", "items", "a b", "é"}).Draw(t, "c7_lit"))}
	nv := rapid.IntRange(0, 3).Draw(t, "c7_nvars")
	used := map[string]bool{}
	for i := 0; i < nv; i++ {
		f := rapid.SampledFrom(leaves).Draw(t, "c7_var")
		if used[f] || f == r.Body || strings.HasPrefix(f, r.Body+".") {
			continue
		}
		fds, _ := resolveFieldPath(md, strings.Split(f, "."), false)
		// at most one arm per oneof in a template (the order in which variables are applied is not specified)
		clash := false
		for _, fd := range fds {
			if od := fd.ContainingOneof(); od != nil && !od.IsSynthetic() {
				if used["oneof:"+string(od.FullName())] {
					clash = true
				}
				used["oneof:"+string(od.FullName())] = true
			}
		}
		if clash {
			continue
		}
		used[f] = true
		isString := fds[len(fds)-1].Kind() == protoreflect.StringKind
		last := i == nv-1
		switch k := rapid.IntRange(0, 5).Draw(t, "c7_varkind"); {
		case isString && last && k == 0:
			segs = append(segs, "{"+f+"=**}")
		case isString && k == 1:
			segs = append(segs, "{"+f+"=r/*}")
			if rapid.Bool().Draw(t, "c7_lit_after_var") {
				segs = append(segs, "tail") // a literal right behind a bounded variable
			}
		case isString && last && k == 2:
			segs = append(segs, "{"+f+"=p/*/q/**}")
		case k == 3:
			segs = append(segs, "{"+f+"=*}")
		default:
			segs = append(segs, "{"+f+"}")
		}
		if strings.Contains(segs[len(segs)-1], "**") {
			break
		}
	}
	r.Template = "/" + strings.Join(segs, "/")
	if rapid.IntRange(0, 3).Draw(t, "c7_verb") == 0 {
		r.Template += ":act"
	}
	return r
}

func misfitFor(fd protoreflect.FieldDescriptor, t *rapid.T) string {
	switch fd.Kind() {
	case protoreflect.BoolKind:
		return rapid.SampledFrom([]string{"tru", "yes", "2", "", "truefalse"}).Draw(t, "misfit_bool")
	case protoreflect.Int32Kind, protoreflect.Sint32Kind, protoreflect.Sfixed32Kind:
		return rapid.SampledFrom([]string{"abc", "1.5", "2147483648", "-2147483649", "1x", "", "0.5", "--1"}).Draw(t, "misfit_i32")
	case protoreflect.Int64Kind, protoreflect.Sint64Kind, protoreflect.Sfixed64Kind:
		return rapid.SampledFrom([]string{"abc", "1.5", "9223372036854775808", "1x", ""}).Draw(t, "misfit_i64")
	case protoreflect.Uint32Kind, protoreflect.Fixed32Kind:
		return rapid.SampledFrom([]string{"abc", "-1", "4294967296", "1.5", ""}).Draw(t, "misfit_u32")
	case protoreflect.Uint64Kind, protoreflect.Fixed64Kind:
		return rapid.SampledFrom([]string{"abc", "-1", "18446744073709551616", "1.5", ""}).Draw(t, "misfit_u64")
	case protoreflect.FloatKind, protoreflect.DoubleKind:
		return rapid.SampledFrom([]string{"abc", "1.2.3", "", "one", "1,5"}).Draw(t, "misfit_f")
	case protoreflect.BytesKind:
		return rapid.SampledFrom([]string{"!!!", "a b", "Zm9v#", "****"}).Draw(t, "misfit_bytes")
	case protoreflect.EnumKind:
		return rapid.SampledFrom([]string{"NOPE", "enum_value", "1.5", ""}).Draw(t, "misfit_enum")
	case protoreflect.MessageKind:
		switch fd.Message().FullName() {
		case "google.protobuf.Timestamp":
			return rapid.SampledFrom([]string{"yesterday", "xx:yy", ""}).Draw(t, "misfit_ts")
		case "google.protobuf.Duration":
			return rapid.SampledFrom([]string{"abc", "s", ""}).Draw(t, "misfit_dur")
		}
	}
	return ""
}

func TestC07(t *testing.T) {
	rapid.Check(t, func(t *rapid.T) {
		rule := genC07Rule(t)
		mode := rapid.SampledFrom([]string{"client", "client", "backend", "chain"}).Draw(t, "c7_mode")
		mi := lookupMethod(routeService, strings.TrimPrefix(rule.Selector, routeService+"."))
		sc := &Scenario{}
		sc.Config = Config{Codecs: []string{CodecProto, CodecJSON}, Compressions: []string{CompGzip}, Rules: []RuleSpec{rule}, WithRoute: true}
		mo := defaultMsgOpts
		mo.maxBlob = 16
		m := genMessage(t, mi.In, "c7_req", mo)
		restProject(t, rule, m, "c7_proj")
		c := &sc.Client
		c.Service, c.Method = routeService, mi.Name
		c.Msgs = [][]byte{mustMarshal(m)}
		c.Param = ParamStyle{BytesURLSafe: rapid.Bool().Draw(t, "p_urlsafe"), BytesNoPad: rapid.Bool().Draw(t, "p_nopad"), EnumNumber: rapid.IntRange(0, 3).Draw(t, "p_enum_num") == 0, ProtoNames: rapid.Bool().Draw(t, "p_proto_names")}
		c.JSON = JSONStyle{ProtoNames: rapid.Bool().Draw(t, "j_proto_names"), EmitUnpopulated: rapid.IntRange(0, 3).Draw(t, "j_emit") == 0, EnumNumbers: rapid.IntRange(0, 3).Draw(t, "j_enum_num") == 0}
		sc.Backend = Backend{Kind: "ok", Msgs: [][]byte{mustMarshal(genMessage(t, mi.Out, "c7_resp", mo))}, MsgRaw: []bool{false}}
		switch mode {
		case "client":
			sc.Config.Protocols = []string{rapid.SampledFrom([]string{ProtoGRPC, ProtoConnect, ProtoGRPCWeb}).Draw(t, "c7_target_proto")}
			c.Form, c.Codec = FormREST, CodecJSON
			sc.Config.DiscardQuery = rapid.Bool().Draw(t, "c7_discard")
			md := messageDescriptor(mi.In)
			leaves := paramLeafPaths(md, "", 0)
			switch rapid.IntRange(0, 5).Draw(t, "c7_extra") {
			case 0: // override by query
				f := rapid.SampledFrom(leaves).Draw(t, "c7_override_field")
				fds, _ := resolveFieldPath(md, strings.Split(f, "."), false)
				tmp := newMessage(mi.In)
				gv := genScalarOrWKT(t, tmp.ProtoReflect(), fds)
				realOneof := false
				for _, fd := range fds {
					if od := fd.ContainingOneof(); od != nil && !od.IsSynthetic() {
						realOneof = true // two arms of one oneof in the query: order-dependent in any implementation
					}
				}
				if !realOneof && (gv != "" || fds[len(fds)-1].Kind() == protoreflect.StringKind) {
					c.ExtraQuery = append(c.ExtraQuery, KV{queryName(fds, rapid.Bool().Draw(t, "c7_json_name")), gv})
					sc.Note = "override"
				}
			case 1: // misfit
				f := rapid.SampledFrom(leaves).Draw(t, "c7_misfit_field")
				fds, _ := resolveFieldPath(md, strings.Split(f, "."), false)
				if v := misfitFor(fds[len(fds)-1], t); v != "" || fds[len(fds)-1].Kind() != protoreflect.StringKind {
					if fds[len(fds)-1].Kind() != protoreflect.StringKind {
						c.ExtraQuery = append(c.ExtraQuery, KV{queryName(fds, false), v})
						sc.Note = "misfit"
					}
				}
			case 2: // unknown parameter
				c.ExtraQuery = append(c.ExtraQuery, KV{rapid.SampledFrom([]string{"nosuchfield", "nested.nope", "x.y.z", "string_value.sub", "string_value.", "msg_value.", ".string_value", "msg_value..string_value", ".", "recursive.recursive."}).Draw(t, "c7_unknown"), "1"})
				sc.Note = "unknown_param"
			case 3: // repeated values appended
				for _, f := range []string{"double_list", "enum_list", "string_list", "int32_list"} {
					if fd := md.Fields().ByName(protoName(f)); fd != nil && rule.Body != "*" && rule.Body != f {
						n := rapid.IntRange(1, 3).Draw(t, "c7_nrep")
						for i := 0; i < n; i++ {
							var v string
							switch fd.Kind() {
							case protoreflect.EnumKind:
								v = string(fd.Enum().Values().Get(rapid.IntRange(0, fd.Enum().Values().Len()-1).Draw(t, "c7_rep_enum")).Name())
							case protoreflect.StringKind:
								v = genSegValue(t, "c7_rep_str", true)
							default:
								v = fmt.Sprint(rapid.IntRange(-5, 500).Draw(t, "c7_rep_num"))
							}
							c.ExtraQuery = append(c.ExtraQuery, KV{f, v})
						}
						sc.Note = "repeated_appended"
						break
					}
				}
			}
		case "backend", "chain":
			sc.Config.Protocols = []string{ProtoREST}
			c.Form = rapid.SampledFrom([]string{FormGRPC, FormConnectUnary, FormGRPCWeb}).Draw(t, "c7_client_form")
			c.HTTP2 = true
			c.Codec = rapid.SampledFrom([]string{CodecProto, CodecJSON}).Draw(t, "c7_codec")
			unproj := rapid.IntRange(0, 5).Draw(t, "c7_unprojected")
			if strings.Contains(rule.Template, "=r/*}") && rapid.IntRange(0, 2).Draw(t, "c7_force_misfit") == 0 {
				unproj = 1
			}
			switch unproj {
			case 0:
				// a message that may not be URL-encodable at all
				c.Msgs = [][]byte{mustMarshal(genMessage(t, mi.In, "c7_raw_req", mo))}
				sc.Note = "unprojected"
			case 1:
				// a path variable whose value does not match the pattern its template gives it: there is
				// no URL for this message, the RPC must fail
				if patternMisfit(t, rule, m, "c7_misfit") {
					c.Msgs = [][]byte{mustMarshal(m)}
					sc.Note = "pattern_misfit"
				}
			}
		}
		rc := &restCase{Mode: mode, Sc: *sc}
		judge(t, "C07", rc, checkC07(rc))
	})
}

func queryName(fds []protoreflect.FieldDescriptor, jsonNames bool) string {
	parts := make([]string, len(fds))
	for i, fd := range fds {
		if jsonNames {
			parts[i] = fd.JSONName()
		} else {
			parts[i] = string(fd.Name())
		}
	}
	return strings.Join(parts, ".")
}

// genScalarOrWKT draws a value for the leaf and returns its canonical text form.
func genScalarOrWKT(t *rapid.T, root protoreflect.Message, fds []protoreflect.FieldDescriptor) string {
	leaf := fds[len(fds)-1]
	cur := root
	for _, fd := range fds[:len(fds)-1] {
		cur = cur.Mutable(fd).Message()
	}
	var v protoreflect.Value
	if leaf.Kind() == protoreflect.MessageKind {
		v = cur.NewField(leaf)
		fillMessage(t, v.Message(), "ov", 2, defaultMsgOpts)
	} else {
		o := defaultMsgOpts
		o.maxBlob = 10
		v = genScalar(t, leaf, "ov", o)
	}
	s, err := paramText(leaf, v, ParamStyle{})
	if err != nil {
		return ""
	}
	return s
}

func interesting(sc *Scenario, enc *encodedRequest) bool {
	if enc == nil {
		return false
	}
	return strings.Contains(enc.Target, "%") || strings.Contains(enc.Target, "?")
}

func checkC07(rc *restCase) *CheckResult {
	res := &CheckResult{}
	sc := &rc.Sc
	c := &sc.Client
	rule := sc.Config.Rules[0]
	res.Key = fmt.Sprintf("%s|%v|%x|%v|%s", rc.Mode, rule, c.Msgs, c.ExtraQuery, c.Form)
	switch rc.Mode {
	case "client":
		out := runScenario(sc)
		if out.ConfigErr != "" {
			res.class("rule_rejected")
			res.Skipped = true
			return res
		}
		if out.BuildErr != "" {
			res.class("not_renderable")
			res.Skipped = true
			return res
		}
		if panicViolation(res, out) {
			return res
		}
		cv, view := out.Client, out.Backend
		// reference: bind the request as actually sent
		tm, _ := parseTemplate(rule.Template)
		path, query, _ := strings.Cut(out.Sent.Target, "?")
		mr := matchTemplate(tm, path)
		br := bindREST(rule, out.Sent.MI.In, mr.Captures, query, out.Sent.Payloads0(), headerOf(out.Sent.Header, "Content-Type"), sc.Config.DiscardQuery)
		res.class("mode=client note=%s fit=%d status=%d", sc.Note, br.Fit, cv.Status)
		res.NonTrivial = interesting(sc, out.Sent)
		res.Sample = map[string]any{"mode": "client", "rule": rule, "request": out.Sent.Method + " " + out.Sent.Target, "body": string(trunc(out.Sent.Payloads0())), "note": sc.Note, "reference_fit": br.Fit, "status": cv.Status}
		if mr.Level != mYes {
			res.class("reference_match_uncertain")
			return res
		}
		switch br.Fit {
		case fitMaybe:
			if sc.Note == "unknown_param" && !sc.Config.DiscardQuery {
				// only required to fail visibly
				if cv.OK {
					res.violate("unknown_param_accepted", "c07:unknown_param", "unknown query parameter %v was accepted although DiscardUnknownQueryParams is off", c.ExtraQuery)
				}
			}
			return res
		case fitNo:
			if view != nil && len(view.Msgs) > 0 && view.Msgs[0] != nil && cv.OK {
				res.violate("misfit_coerced", "c07:misfit", "%s: backend received %s and the client got OK", br.Why, msgJSON(view.Msgs[0]))
			} else if cv.Status != 400 || cv.Err == nil || cv.Err.Code != 3 {
				res.violate("misfit_status", "c07:misfit", "%s: want 400 invalid_argument, got HTTP %d %s", br.Why, cv.Status, cv.outcome())
			}
			return res
		}
		if view == nil || len(view.Msgs) != 1 || view.Msgs[0] == nil {
			res.violate("valid_rejected", "c07:client_rejected", "request %s %s (body %q) fits rule %v but was not delivered: HTTP %d %s %s", out.Sent.Method, out.Sent.Target, trunc(out.Sent.Payloads0()), rule, cv.Status, cv.outcome(), errMsg(cv))
			return res
		}
		want := normRule(rule, rule.Body, []proto.Message{br.Msg})[0]
		got := normRule(rule, rule.Body, view.Msgs)[0]
		if canon(want) != canon(got) && canon(dequoteWrapperStrings(want)) == canon(got) {
			// A StringValue parameter whose text is itself a JSON string literal ("...") is read by
			// vanguard as that literal; the repository's own TestSetParameter documents this
			// leniency. For a client-supplied parameter either reading is a faithful one
			// (three-valued: unspecified); the consequence for the round trip is a known finding.
			res.class("quoted_wrapper_string_read_as_json")
		} else if canon(want) != canon(got) {
			res.violate("binding", "c07:binding", "request %s %s (body %q) under rule %v: backend decoded %s, reference binder gives %s", out.Sent.Method, out.Sent.Target, trunc(out.Sent.Payloads0()), rule, msgJSON(got), msgJSON(want))
		}
		// response: JSON of the response_body field
		if cv.OK && len(cv.Msgs) == 1 && cv.Msgs[0] != nil {
			produced := respScriptMsgs(sc, view)
			if len(produced) == 1 {
				if _, _, isBody, _ := expectedRESTResponseField(rule, produced[0]); isBody {
					if string(getHTTPBodyData(cv.Msgs[0], &rule)) != string(getHTTPBodyData(produced[0], &rule)) {
						res.violate("response_body", "c07:response", "HttpBody response data differs")
					}
				} else {
					w := normRESTPresence(rule.ResponseBody, []proto.Message{projectResponse(&rule, produced[0])})[0]
					g := normRESTPresence(rule.ResponseBody, cv.Msgs)[0]
					if canon(w) != canon(g) {
						res.violate("response_body", "c07:response", "response_body %q: client decoded %s, handler produced %s", rule.ResponseBody, msgJSON(g), msgJSON(w))
					}
				}
			}
		} else if !cv.OK {
			res.class("client_error_after_valid_request code=%s", cv.outcome())
		}
		for _, p := range cv.Problems {
			res.violate("response_invalid", "c07:response", "REST response not valid: %s", p)
		}
		return res
	case "backend":
		out := runScenario(sc)
		if out.ConfigErr != "" || out.BuildErr != "" {
			res.class("rule_rejected")
			res.Skipped = true
			return res
		}
		if panicViolation(res, out) {
			return res
		}
		cv, view := out.Client, out.Backend
		expressible := refRoundTrips(rule, out.Sent.Msgs[0]) && !hasUnknownEnum(out.Sent.Msgs[0].ProtoReflect())
		res.class("mode=backend note=%s expressible=%v invoked=%v outcome=%s", sc.Note, expressible, view != nil, cv.outcome())
		res.Sample = map[string]any{"mode": "backend", "rule": rule, "message": msgJSON(out.Sent.Msgs[0]), "expressible_by_reference": expressible, "outcome": cv.outcome()}
		if view == nil {
			if expressible && !cv.OK {
				res.violate("expressible_rejected", "c07:backend_rejected", "message %s is expressible under rule %v but the RPC failed before reaching the REST backend: %s %s", msgJSON(out.Sent.Msgs[0]), rule, cv.outcome(), errMsg(cv))
			}
			return res
		}
		res.NonTrivial = strings.Contains(view.EscapedPath, "%") || view.Snap.RawQuery != ""
		res.Sample.(map[string]any)["backend_request"] = view.Snap.Method + " " + view.EscapedPath + "?" + view.Snap.RawQuery
		if sc.Note == "pattern_misfit" && !expressible {
			res.violate("misfit_sent", "c07:backend_roundtrip:pattern_misfit", "message %s has a path variable that does not match its pattern in rule %v, yet a REST request was issued: %s %s", msgJSON(out.Sent.Msgs[0]), rule, view.Snap.Method, view.EscapedPath)
			return res
		}
		if view.Snap.Method != rule.Method {
			res.violate("rest_method", "c07:backend_line", "REST backend received method %s, rule says %s", view.Snap.Method, rule.Method)
		}
		for _, p := range view.Problems {
			res.violate("rest_request_invalid", "c07:backend_reparse", "REST backend request %s %s?%s (body %q): %s", view.Snap.Method, view.EscapedPath, view.Snap.RawQuery, trunc(view.Body), p)
		}
		if len(view.Msgs) == 1 && view.Msgs[0] != nil {
			want := normRule(rule, rule.Body, out.Sent.Msgs)[0]
			got := normRule(rule, rule.Body, view.Msgs)[0]
			if canon(want) != canon(got) && cv.OK {
				sig := "c07:backend_roundtrip"
				if !expressible {
					sig = "c07:backend_roundtrip:inexpressible"
				}
				if sc.Note == "pattern_misfit" {
					sig = "c07:backend_roundtrip:pattern_misfit"
				}
				res.violate("roundtrip", sig, "message converted to REST does not re-parse to the original: sent %s, REST request %s %s?%s body %q re-parses to %s", msgJSON(want), view.Snap.Method, view.EscapedPath, view.Snap.RawQuery, trunc(view.Body), msgJSON(got))
			}
		}
		return res
	default: // chain: RPC -> REST -> RPC
		return checkC07Chain(rc, res)
	}
}

// normRule: comparisons under a rule ignore presence differences REST cannot
// express: the sub-message named by body (normRESTPresence) and fields bound to
// path variables, which always receive a value (absent == present-with-default).
func normRule(rule RuleSpec, field string, ms []proto.Message) []proto.Message {
	ms = normRESTPresence(field, ms)
	tm, err := parseTemplate(rule.Template)
	if err != nil {
		return ms
	}
	out := make([]proto.Message, len(ms))
	for i, m := range ms {
		out[i] = m
		if m == nil {
			continue
		}
		c := proto.Clone(m)
		dropNullValues(c.ProtoReflect())
		changed := true
		for _, v := range tm.Vars {
			fds, err := resolveFieldPath(c.ProtoReflect().Descriptor(), v.Path, false)
			if err != nil {
				continue
			}
			cur := c.ProtoReflect()
			chain := []protoreflect.Message{cur}
			okp := true
			for _, fd := range fds[:len(fds)-1] {
				if !cur.Has(fd) {
					okp = false
					break
				}
				cur = cur.Get(fd).Message()
				chain = append(chain, cur)
			}
			if !okp {
				continue
			}
			leaf := fds[len(fds)-1]
			if leaf.HasPresence() && cur.Has(leaf) {
				isDefault := false
				if leaf.Kind() == protoreflect.MessageKind {
					isDefault = true
					cur.Get(leaf).Message().Range(func(protoreflect.FieldDescriptor, protoreflect.Value) bool { isDefault = false; return false })
				} else {
					isDefault = cur.Get(leaf).Equal(leaf.Default())
				}
				if isDefault {
					cur.Clear(leaf)
					changed = true
				}
			}
			// parents that only exist to hold the variable and are empty now
			for j := len(chain) - 1; j >= 1; j-- {
				empty := true
				chain[j].Range(func(protoreflect.FieldDescriptor, protoreflect.Value) bool { empty = false; return false })
				if !empty {
					break
				}
				chain[j-1].Clear(fds[j-1])
				changed = true
			}
		}
		if changed {
			out[i] = c
		}
	}
	return out
}

func errMsg(cv *ClientView) string {
	if cv.Err != nil {
		return cv.Err.Message
	}
	return ""
}

func headerOf(h []KV, name string) string {
	for _, kv := range h {
		if strings.EqualFold(kv.K, name) {
			return kv.V
		}
	}
	return ""
}

func (enc *encodedRequest) Payloads0() []byte {
	if len(enc.Payloads) > 0 {
		return enc.Payloads[0]
	}
	return nil
}

// checkC07Chain sends an RPC through a transcoder whose only target is REST into
// a second transcoder (same rule) whose only target is gRPC.
func checkC07Chain(rc *restCase, res *CheckResult) *CheckResult {
	sc := &rc.Sc
	rule := sc.Config.Rules[0]
	out := &Outcome{}
	br := &benchRun{sc: sc, out: out}
	cfg2 := sc.Config
	cfg2.Protocols = []string{ProtoGRPC}
	inner, err := buildTranscoder(cfg2, br.serviceHandler(), nil)
	if err != nil {
		res.class("rule_rejected")
		res.Skipped = true
		return res
	}
	cfg1 := sc.Config
	cfg1.Protocols = []string{ProtoREST}
	outer, err := buildTranscoder(cfg1, inner, nil)
	if err != nil {
		res.Skipped = true
		return res
	}
	enc, err := encodeRequest(sc)
	if err != nil {
		res.Skipped = true
		return res
	}
	var done int32
	req, _, _, err := newRequest(enc.Method, enc.Target, enc.Header, enc.Body, sc.Client.HTTP2, enc.DeclaredCL, nil, false, &done)
	if err != nil {
		res.Skipped = true
		return res
	}
	rec := newRecorder(&done)
	panicked := ""
	func() {
		defer func() {
			if p := recover(); p != nil {
				panicked = fmt.Sprint(p)
			}
		}()
		outer.ServeHTTP(rec, req)
	}()
	if panicked != "" {
		res.violate("panic", "panic:chain", "chain RPC->REST->RPC panicked: %s", panicked)
		return res
	}
	out.Rec = rec
	out.Sent = enc
	cv := parseClientResponse(sc, enc, rec, rec.Trailers())
	expressible := refRoundTrips(rule, enc.Msgs[0]) && !hasUnknownEnum(enc.Msgs[0].ProtoReflect())
	res.class("mode=chain note=%s expressible=%v invoked=%v outcome=%s", sc.Note, expressible, out.Backend != nil, cv.outcome())
	res.NonTrivial = true
	res.Sample = map[string]any{"mode": "chain", "rule": rule, "message": msgJSON(enc.Msgs[0]), "expressible_by_reference": expressible, "outcome": cv.outcome()}
	if out.Backend == nil {
		if expressible && !cv.OK {
			res.violate("expressible_rejected", "c07:chain_rejected", "message %s is expressible under rule %v but RPC->REST->RPC failed: %s %s", msgJSON(enc.Msgs[0]), rule, cv.outcome(), errMsg(cv))
		}
		return res
	}
	if sc.Note == "pattern_misfit" && !expressible && cv.OK {
		res.violate("misfit_sent", "c07:chain_roundtrip:pattern_misfit", "message %s has a path variable that does not match its pattern in rule %v, yet RPC->REST->RPC succeeded (final backend saw %d messages)", msgJSON(enc.Msgs[0]), rule, len(out.Backend.Msgs))
		return res
	}
	if len(out.Backend.Msgs) == 1 && out.Backend.Msgs[0] != nil && cv.OK {
		want := normRule(rule, rule.Body, enc.Msgs)[0]
		got := normRule(rule, rule.Body, out.Backend.Msgs)[0]
		if canon(want) != canon(got) {
			sig := "c07:chain_roundtrip"
			if sc.Note == "pattern_misfit" {
				sig = "c07:chain_roundtrip:pattern_misfit"
			} else if !expressible {
				sig = "c07:chain_roundtrip:inexpressible"
			} else if canon(dequoteWrapperStrings(want)) == canon(got) {
				sig = "c07:chain_roundtrip:quoted_stringvalue"
			}
			res.violate("roundtrip", sig, "RPC->REST->RPC changed the request: sent %s, final backend saw %s (rule %v)", msgJSON(want), msgJSON(got), rule)
		}
		produced := respScriptMsgs(sc, out.Backend)
		if len(produced) == 1 && len(cv.Msgs) == 1 && cv.Msgs[0] != nil {
			if _, _, isBody, _ := expectedRESTResponseField(rule, produced[0]); !isBody {
				w := normRESTPresence(rule.ResponseBody, []proto.Message{projectResponse(&rule, produced[0])})[0]
				g := normRESTPresence(rule.ResponseBody, cv.Msgs)[0]
				if canon(w) != canon(g) {
					res.violate("roundtrip_response", "c07:chain_response", "RPC->REST->RPC changed the response: produced %s (response_body %q), client saw %s", msgJSON(w), rule.ResponseBody, msgJSON(g))
				}
			}
		}
	}
	return res
}

var _ = http.StatusOK

// hasUnknownEnum: an enum number without a name could be put into a URL as a
// number, but refusing it (visibly) is a legitimate choice.
func hasUnknownEnum(m protoreflect.Message) bool {
	found := false
	m.Range(func(fd protoreflect.FieldDescriptor, v protoreflect.Value) bool {
		switch {
		case fd.IsMap():
			if fd.MapValue().Kind() == protoreflect.MessageKind {
				v.Map().Range(func(_ protoreflect.MapKey, mv protoreflect.Value) bool {
					if hasUnknownEnum(mv.Message()) {
						found = true
					}
					return !found
				})
			}
		case fd.Kind() == protoreflect.EnumKind && fd.IsList():
			for i := 0; i < v.List().Len(); i++ {
				if fd.Enum().Values().ByNumber(v.List().Get(i).Enum()) == nil {
					found = true
				}
			}
		case fd.Kind() == protoreflect.EnumKind:
			if fd.Enum().Values().ByNumber(v.Enum()) == nil {
				found = true
			}
		case fd.Kind() == protoreflect.MessageKind && fd.IsList():
			for i := 0; i < v.List().Len(); i++ {
				if hasUnknownEnum(v.List().Get(i).Message()) {
					found = true
				}
			}
		case fd.Kind() == protoreflect.MessageKind:
			if hasUnknownEnum(v.Message()) {
				found = true
			}
		}
		return !found
	})
	return found
}

// refRoundTrips: the reference renderer can express m under the rule and the
// reference binder maps that request back to m. Messages for which this fails
// (a oneof arm bound to a path variable while another arm is set, a present but
// empty sub-message outside the body, maps without a body, ...) have no REST
// form at all.
func refRoundTrips(rule RuleSpec, m proto.Message) bool {
	rr, err := renderREST(rule, m, ParamStyle{}, JSONStyle{})
	if err != nil {
		return false
	}
	tm, err := parseTemplate(rule.Template)
	if err != nil {
		return false
	}
	mr := matchTemplate(tm, rr.RawPath)
	if mr.Level != mYes {
		return false
	}
	br := bindREST(rule, string(m.ProtoReflect().Descriptor().FullName()), mr.Captures, rr.RawQuery, rr.Body, rr.BodyCT, false)
	if br.Fit != fitYes {
		return false
	}
	a := normRule(rule, rule.Body, []proto.Message{m})[0]
	b := normRule(rule, rule.Body, []proto.Message{br.Msg})[0]
	return canon(a) == canon(b)
}


// dequoteWrapperStrings returns a copy of m in which every google.protobuf.StringValue whose value
// is a JSON string literal (starts and ends with a double quote and parses) holds the parsed string.
func dequoteWrapperStrings(m proto.Message) proto.Message {
	out := proto.Clone(m)
	var walk func(pm protoreflect.Message)
	walk = func(pm protoreflect.Message) {
		if pm.Descriptor().FullName() == "google.protobuf.StringValue" {
			fd := pm.Descriptor().Fields().ByName("value")
			v := pm.Get(fd).String()
			if len(v) >= 2 && v[0] == '"' && v[len(v)-1] == '"' {
				var s string
				if json.Unmarshal([]byte(v), &s) == nil {
					pm.Set(fd, protoreflect.ValueOfString(s))
				}
			}
			return
		}
		pm.Range(func(fd protoreflect.FieldDescriptor, v protoreflect.Value) bool {
			switch {
			case fd.IsMap():
				if fd.MapValue().Message() != nil {
					v.Map().Range(func(_ protoreflect.MapKey, mv protoreflect.Value) bool { walk(mv.Message()); return true })
				}
			case fd.IsList():
				if fd.Message() != nil {
					for i := 0; i < v.List().Len(); i++ {
						walk(v.List().Get(i).Message())
					}
				}
			case fd.Message() != nil:
				walk(v.Message())
			}
			return true
		})
	}
	walk(out.ProtoReflect())
	return out
}
