package verifbench

import (
	"encoding/json"
	"fmt"
	"net/http"
	"strings"
	"testing"

	"connectrpc.com/vanguard"
	"google.golang.org/genproto/googleapis/api/annotations"
	"pgregory.net/rapid"
)

// C17 - NewTranscoder accepts exactly the servable configurations and honours them.

const ruleC17 = "rapid draws configurations: services from a pool (dynamic Bench and Route services, the generated LibraryService by name, an unknown service name, the same service twice), target protocol sets incl. empty and invalid values, codec / compression names incl. unknown ones, options given as transcoder-wide defaults and/or per service, and rule sets built from valid blocks (valid templates on suitable fields, exact selectors) into which at most ONE defect of a category the statement lists is injected: unknown codec, unknown compression, no protocol, invalid protocol value, no codec, service registered twice, template violating the http.proto grammar (8 mutation kinds), two bindings with the same method and template, body / response_body / variable selector naming no field, variable on a repeated, map or message-typed field, body path of two elements, selector matching no method, empty selector, misplaced wildcard, wildcard selector binding one template to several methods, REST-only service without bindings, nested additional bindings. Services are registered in a drawn order; options include compression lists and WithNoTargetCompression per service and as defaults. Oracle (three-valued): a configuration with an injected defect must be rejected with a nil transcoder; one built only from valid blocks must be accepted, and then every binding must be reachable through a URL instantiated from its template with fresh segment values, a selector must bind exactly the method it names (every other method is probed through the same URL), and per-service options must override the defaults (observed from the wire form the backend receives). Non-trivial = the configuration has a WithRules rule or an option override; distinct by hash(configuration)."

type svcSpec struct {
	Kind         string   `json:"kind"` // bench | route | library | unknown_name
	Protocols    []string `json:"protocols,omitempty"`
	Codecs       []string `json:"codecs,omitempty"`
	Compressions []string `json:"compressions,omitempty"`
	SetProtocols bool     `json:"set_protocols,omitempty"`
	SetCodecs    bool     `json:"set_codecs,omitempty"`
	SetCompress  bool     `json:"set_compress,omitempty"`
	NoCompress   bool     `json:"no_compress,omitempty"` // WithNoTargetCompression()
}

type cfgCase struct {
	Services []svcSpec  `json:"services"`
	Defaults svcSpec    `json:"defaults"`
	Rules    []RuleSpec `json:"rules,omitempty"`
	Defect   string     `json:"defect,omitempty"` // "" = built from valid blocks only
}

func init() {
	registerProp(&propDef{ID: "C17", Rule: ruleC17, Replay: func(raw json.RawMessage) (*CheckResult, error) {
		var c cfgCase
		if err := json.Unmarshal(raw, &c); err != nil {
			return nil, err
		}
		return checkC17(&c), nil
	}})
}

func (s svcSpec) options() []vanguard.ServiceOption {
	var so []vanguard.ServiceOption
	if s.SetProtocols {
		ps := make([]vanguard.Protocol, len(s.Protocols))
		for i, p := range s.Protocols {
			ps[i] = protoConst(p)
		}
		so = append(so, vanguard.WithTargetProtocols(ps...))
	}
	if s.SetCodecs {
		so = append(so, vanguard.WithTargetCodecs(s.Codecs...))
	}
	if s.SetCompress {
		so = append(so, vanguard.WithTargetCompression(s.Compressions...))
	}
	if s.NoCompress {
		so = append(so, vanguard.WithNoTargetCompression())
	}
	return so
}

type c17Handlers struct {
	run *benchRun
}

func buildC17(c *cfgCase, handler http.Handler) (*vanguard.Transcoder, error) {
	s := schema()
	var svcs []*vanguard.Service
	for _, sp := range c.Services {
		switch sp.Kind {
		case "bench":
			svcs = append(svcs, vanguard.NewServiceWithSchema(s.bench, handler, sp.options()...))
		case "route":
			svcs = append(svcs, vanguard.NewServiceWithSchema(s.route, handler, sp.options()...))
		case "library":
			svcs = append(svcs, vanguard.NewService("/vanguard.test.v1.LibraryService/", handler, sp.options()...))
		case "unknown_name":
			svcs = append(svcs, vanguard.NewService("no.such.Service", handler, sp.options()...))
		}
	}
	topts := transcoderBaseOptions()
	if d := c.Defaults.options(); len(d) > 0 {
		topts = append(topts, vanguard.WithDefaultServiceOptions(d...))
	}
	if len(c.Rules) > 0 {
		rules := make([]*annotations.HttpRule, len(c.Rules))
		for i, r := range c.Rules {
			rules[i] = r.toProto()
		}
		topts = append(topts, vanguard.WithRules(rules...))
	}
	return vanguard.NewTranscoder(svcs, topts...)
}

var validRuleBlocks = []RuleSpec{
	{Selector: routeService + ".A", Method: "GET", Template: "/cfg/a/{string_value}"},
	{Selector: routeService + ".A", Method: "POST", Template: "/cfg/a", Body: "*"},
	{Selector: routeService + ".B", Method: "PUT", Template: "/cfg/b/{string_value}/x/{recursive.string_value}", Body: "nested", ResponseBody: "nested"},
	{Selector: routeService + ".C", Method: "DELETE", Template: "/cfg/c/{string_value=**}"},
	{Selector: routeService + ".D", Method: "GET", Template: "/cfg/d/{string_value=v/*}:go"},
	{Selector: routeService + ".Get", Method: "GET", Template: "/cfg/get/{string_value}"},
	{Selector: routeService + ".GetMore", Method: "GET", Template: "/cfg/getmore/{string_value}/{int32_value}"},
	{Selector: routeService + ".GetMoreStill", Method: "POST", Template: "/cfg/still/{name}", Body: "file", ResponseBody: "file"},
	{Selector: routeService + ".Get", Method: "PATCH", Template: "/cfg/get/{msg_value.string_value}/m", Body: "msg_value", Additional: []RuleSpec{{Method: "POST", Template: "/cfg/get2/{opt_string_value}", Body: "*"}}},
	{Selector: benchService + ".UnaryPlain", Method: "POST", Template: "/cfg/plain", Body: "*"},
	// overlapping siblings: literal, single-segment and multi-segment continuations of one prefix
	{Selector: routeService + ".A", Method: "GET", Template: "/cfg/sib/{string_value}/info"},
	{Selector: routeService + ".B", Method: "GET", Template: "/cfg/sib/{recursive.string_value=**}"},
	{Selector: routeService + ".C", Method: "GET", Template: "/cfg/sib/fixed/info"},
	{Selector: routeService + ".D", Method: "GET", Template: "/cfg/sib/{string_value}/*/deep:go"},
}

var badTemplates = []string{"cfg/x", "", "/cfg/**/x", "/cfg/{string_value", "/cfg/string_value}", "/cfg/{string_value}/{string_value}", "/cfg//x", "/cfg/x/", "/cfg/{}", "/cfg/{string_value=}", "/cfg/x:", "/cfg/a b", "/cfg/{1abc}"}

func genCfgCase(t *rapid.T) *cfgCase {
	c := &cfgCase{}
	c.Services = []svcSpec{{Kind: "bench"}, {Kind: "route"}}
	if rapid.Bool().Draw(t, "with_library") {
		c.Services = append(c.Services, svcSpec{Kind: "library"})
	}
	// defaults and overrides from valid values
	if rapid.Bool().Draw(t, "defaults_protocols") {
		c.Defaults.SetProtocols, c.Defaults.Protocols = true, append([]string(nil), rapid.SampledFrom([][]string{{ProtoGRPC}, {ProtoConnect}, {ProtoGRPCWeb}, {ProtoConnect, ProtoGRPC}}).Draw(t, "def_protocols")...)
	}
	if rapid.Bool().Draw(t, "defaults_codecs") {
		c.Defaults.SetCodecs, c.Defaults.Codecs = true, append([]string(nil), rapid.SampledFrom([][]string{{CodecProto}, {CodecJSON}, {CodecJSON, CodecProto}}).Draw(t, "def_codecs")...)
	}
	if rapid.Bool().Draw(t, "defaults_compress") {
		c.Defaults.SetCompress, c.Defaults.Compressions = true, append([]string{}, rapid.SampledFrom([][]string{{}, {CompGzip}, {CompDeflate}}).Draw(t, "def_compress")...)
	}
	for i := range c.Services {
		if rapid.IntRange(0, 2).Draw(t, "svc_override") == 0 {
			c.Services[i].SetProtocols, c.Services[i].Protocols = true, append([]string(nil), rapid.SampledFrom([][]string{{ProtoGRPC}, {ProtoConnect}, {ProtoGRPCWeb}}).Draw(t, "svc_protocols")...)
		}
		if rapid.IntRange(0, 2).Draw(t, "svc_override_codec") == 0 {
			c.Services[i].SetCodecs, c.Services[i].Codecs = true, append([]string(nil), rapid.SampledFrom([][]string{{CodecProto}, {CodecJSON}}).Draw(t, "svc_codecs")...)
		}
		switch rapid.IntRange(0, 5).Draw(t, "svc_override_compress") {
		case 0:
			c.Services[i].SetCompress, c.Services[i].Compressions = true, append([]string{}, rapid.SampledFrom([][]string{{CompGzip}, {CompDeflate}, {CompGzip, CompDeflate}}).Draw(t, "svc_compress")...)
		case 1:
			c.Services[i].NoCompress = true
		}
	}
	// registration order matters for nothing: services are registered in a drawn order
	c.Services = rapid.Permutation(c.Services).Draw(t, "service_order")
	restOnlyRoute := rapid.IntRange(0, 5).Draw(t, "rest_only_route") == 0
	// rules: a subset of valid blocks
	nr := rapid.IntRange(0, 5).Draw(t, "n_cfg_rules")
	seen := map[string]bool{}
	for i := 0; i < nr; i++ {
		r := rapid.SampledFrom(validRuleBlocks).Draw(t, "cfg_rule")
		if seen[r.Method+r.Template] {
			continue
		}
		seen[r.Method+r.Template] = true
		c.Rules = append(c.Rules, r)
	}
	if restOnlyRoute {
		// a REST-only service whose bindings all come from WithRules (its schema carries no annotations):
		// servable as long as there is at least one binding for it
		hasRouteRule := false
		for _, r := range c.Rules {
			if strings.HasPrefix(r.Selector, routeService+".") {
				hasRouteRule = true
			}
		}
		if !hasRouteRule {
			c.Rules = append(c.Rules, validRuleBlocks[0])
		}
		for i := range c.Services {
			if c.Services[i].Kind == "route" {
				c.Services[i].SetProtocols, c.Services[i].Protocols = true, []string{ProtoREST}
			}
		}
	}
	// at most one defect
	if rapid.IntRange(0, 2).Draw(t, "inject_defect") != 0 {
		injectDefect(t, c)
	}
	return c
}

func injectDefect(t *rapid.T, c *cfgCase) {
	pick := func() *svcSpec { return &c.Services[rapid.IntRange(0, len(c.Services)-1).Draw(t, "defect_svc")] }
	target := func() *svcSpec {
		if rapid.Bool().Draw(t, "defect_in_defaults") {
			// only effective if no service overrides it... keep it simple: put it on a service
		}
		return pick()
	}
	badRule := func(r RuleSpec) { c.Rules = append(c.Rules, r) }
	kinds := []string{"var_nested_self", "response_body_two_elements", "var_wkt_lookalike", "unknown_codec", "unknown_compression", "no_protocol", "invalid_protocol", "no_codec", "duplicate_service", "bad_template", "same_binding_twice",
		"body_no_field", "response_body_no_field", "var_no_field", "var_repeated", "var_map", "var_message", "body_two_elements", "selector_no_method", "selector_empty",
		"selector_misplaced_wildcard", "selector_partial_wildcard", "wildcard_conflict", "rest_only_no_bindings", "nested_additional", "unknown_service_name", "no_pattern", "prefix_selector"}
	k := rapid.SampledFrom(kinds).Draw(t, "defect_kind")
	c.Defect = k
	switch k {
	case "var_nested_self":
		// a variable whose own pattern binds the same field again: the field path occurs twice
		badRule(RuleSpec{Selector: routeService + ".A", Method: "GET", Template: rapid.SampledFrom([]string{"/cfg/self/{string_value=a/{string_value}}", "/cfg/self/{string_value=x/{string_value}/y}", "/cfg/self/{nested.string_value=a/{nested.string_value=*}}"}).Draw(t, "self_nested")})
	case "response_body_two_elements":
		badRule(RuleSpec{Selector: routeService + ".B", Method: "GET", Template: "/cfg/rb2/{string_value}", ResponseBody: rapid.SampledFrom([]string{"nested.string_value", "timestamp.seconds", "recursive.nested"}).Draw(t, "rb2")})
	case "var_wkt_lookalike":
		// message types that merely share the short name of a well-known type cannot be path variables
		badRule(RuleSpec{Selector: routeService + ".Wkt", Method: "GET", Template: rapid.SampledFrom([]string{"/cfg/wkt/{duration}", "/cfg/wkt/{empty}", "/cfg/wkt/{name}/{duration}"}).Draw(t, "wkt_like")})
	case "unknown_codec":
		s := target()
		s.SetCodecs, s.Codecs = true, []string{rapid.SampledFrom([]string{"nope", "xml", "PROTO", ""}).Draw(t, "bad_codec")}
	case "unknown_compression":
		s := target()
		s.SetCompress, s.Compressions = true, []string{rapid.SampledFrom([]string{"nope", "br", "GZIP", "zstd"}).Draw(t, "bad_compression")}
		s.NoCompress = false // (would be applied afterwards and erase the bad name)
	case "no_protocol":
		s := target()
		s.SetProtocols, s.Protocols = true, []string{}
	case "invalid_protocol":
		s := target()
		s.SetProtocols, s.Protocols = true, []string{"bogus"}
	case "no_codec":
		s := target()
		s.SetCodecs, s.Codecs = true, []string{}
	case "duplicate_service":
		c.Services = append(c.Services, svcSpec{Kind: rapid.SampledFrom([]string{"bench", "route"}).Draw(t, "dup_kind")})
	case "unknown_service_name":
		c.Services = append(c.Services, svcSpec{Kind: "unknown_name"})
	case "bad_template":
		badRule(RuleSpec{Selector: routeService + ".A", Method: "GET", Template: rapid.SampledFrom(badTemplates).Draw(t, "bad_template")})
	case "same_binding_twice":
		badRule(RuleSpec{Selector: routeService + ".A", Method: "GET", Template: "/cfg/dup/{string_value}"})
		badRule(RuleSpec{Selector: routeService + ".B", Method: "GET", Template: "/cfg/dup/{recursive.string_value}"})
	case "body_no_field":
		badRule(RuleSpec{Selector: routeService + ".A", Method: "POST", Template: "/cfg/bad1", Body: "nope"})
	case "response_body_no_field":
		badRule(RuleSpec{Selector: routeService + ".A", Method: "POST", Template: "/cfg/bad2", Body: "*", ResponseBody: "nope"})
	case "var_no_field":
		badRule(RuleSpec{Selector: routeService + ".A", Method: "GET", Template: rapid.SampledFrom([]string{"/cfg/bad3/{nope}", "/cfg/bad3/{nested.nope}", "/cfg/bad3/{string_value.sub}"}).Draw(t, "bad_var")})
	case "var_repeated":
		badRule(RuleSpec{Selector: routeService + ".A", Method: "GET", Template: rapid.SampledFrom([]string{"/cfg/bad4/{double_list}", "/cfg/bad4/{recursive_list.string_value}"}).Draw(t, "rep_var")})
	case "var_map":
		badRule(RuleSpec{Selector: routeService + ".A", Method: "GET", Template: "/cfg/bad5/{string_map}"})
	case "var_message":
		badRule(RuleSpec{Selector: routeService + ".A", Method: "GET", Template: rapid.SampledFrom([]string{"/cfg/bad6/{nested}", "/cfg/bad6/{recursive}", "/cfg/bad6/{struct_value}"}).Draw(t, "msg_var")})
	case "body_two_elements":
		badRule(RuleSpec{Selector: routeService + ".A", Method: "POST", Template: "/cfg/bad7", Body: "nested.double_value"})
	case "selector_no_method":
		badRule(RuleSpec{Selector: rapid.SampledFrom([]string{routeService + ".Nope", "verif.v1.Nope.A", "nope", routeService + ".a", routeService + ".Nope.*"}).Draw(t, "bad_selector"), Method: "GET", Template: "/cfg/bad8"})
	case "selector_empty":
		badRule(RuleSpec{Selector: "", Method: "GET", Template: "/cfg/bad9"})
	case "selector_misplaced_wildcard":
		badRule(RuleSpec{Selector: rapid.SampledFrom([]string{"verif.*.Route.A", "*.A", "verif.v1.*.A"}).Draw(t, "misplaced"), Method: "GET", Template: "/cfg/bad10"})
	case "selector_partial_wildcard":
		badRule(RuleSpec{Selector: rapid.SampledFrom([]string{routeService + ".Ge*", "verif.v1.Rou*", "verif*"}).Draw(t, "partial"), Method: "GET", Template: "/cfg/bad11"})
	case "wildcard_conflict":
		badRule(RuleSpec{Selector: rapid.SampledFrom([]string{routeService + ".*", "verif.v1.*", "*"}).Draw(t, "wild"), Method: "GET", Template: "/cfg/bad12"})
	case "prefix_selector":
		// not a defect by itself: an exact selector that is a prefix of other method names
		c.Defect = ""
		badRule(RuleSpec{Selector: routeService + ".Get", Method: "GET", Template: "/cfg/prefix/{opt_string_value}"})
	case "rest_only_no_bindings":
		c.Rules = nil
		for i := range c.Services {
			if c.Services[i].Kind == "route" {
				c.Services[i].SetProtocols, c.Services[i].Protocols = true, []string{ProtoREST}
			}
		}
	case "nested_additional":
		badRule(RuleSpec{Selector: routeService + ".A", Method: "GET", Template: "/cfg/bad13", Additional: []RuleSpec{{Method: "POST", Template: "/cfg/bad13b", Additional: []RuleSpec{{Method: "PUT", Template: "/cfg/bad13c"}}}}})
	case "no_pattern":
		badRule(RuleSpec{Selector: routeService + ".A", Method: "", Template: ""})
	}
}

func TestC17(t *testing.T) {
	rapid.Check(t, func(t *rapid.T) {
		c := genCfgCase(t)
		judge(t, "C17", c, checkC17(c))
	})
}

func checkC17(c *cfgCase) *CheckResult {
	res := &CheckResult{}
	raw, _ := json.Marshal(c)
	res.Key = string(raw)
	override := false
	for _, s := range c.Services {
		if s.SetProtocols || s.SetCodecs || s.SetCompress {
			override = true
		}
	}
	res.NonTrivial = len(c.Rules) > 0 || override
	out := &Outcome{}
	sc := &Scenario{Backend: Backend{Kind: "ok", Msgs: [][]byte{{}}}}
	br := &benchRun{sc: sc, out: out}
	var tr *vanguard.Transcoder
	var err error
	func() {
		defer func() {
			if p := recover(); p != nil {
				err = fmt.Errorf("PANIC: %v", p)
				res.violate("panic", "panic:NewTranscoder", "NewTranscoder panicked: %v", p)
			}
		}()
		tr, err = buildC17(c, br.serviceHandler())
	}()
	if len(res.Violations) > 0 {
		return res
	}
	accepted := err == nil
	res.class("defect=%q accepted=%v", c.Defect, accepted)
	res.Sample = map[string]any{"services": c.Services, "defaults": c.Defaults, "rules": c.Rules, "injected_defect": c.Defect, "accepted": accepted}
	if err != nil {
		res.Sample.(map[string]any)["error"] = err.Error()
		if tr != nil {
			res.violate("transcoder_with_error", "c17:nil", "NewTranscoder returned an error AND a transcoder")
		}
		if c.Defect == "" {
			res.violate("valid_rejected", "c17:valid_rejected", "configuration built only from valid blocks was rejected: %v", err)
		}
		return res
	}
	if c.Defect != "" {
		res.violate("defect_accepted", "c17:accepted:"+c.Defect, "configuration with injected defect %q was accepted (rules %v)", c.Defect, c.Rules)
		return res
	}
	// --- accepted: honoured? ---
	probeSvc, probeMethod, probeGzip := routeService, "A", false
	probe := func(method, target string, form string) (*Outcome, *Scenario) {
		psc := &Scenario{Backend: Backend{Kind: "ok", Msgs: [][]byte{{}}}}
		psc.Client = Client{Form: form, Service: probeSvc, Method: probeMethod, UseRaw: true, RawMethod: method, RawTarget: target, Codec: CodecJSON}
		if form == FormGRPCWeb {
			psc.Client.RawHeader = []KV{{"Content-Type", "application/grpc-web+proto"}}
			psc.Client.RawBody = []byte{0, 0, 0, 0, 0}
			psc.Client.Codec = CodecProto
			if probeGzip {
				psc.Client.RawHeader = append(psc.Client.RawHeader, KV{"Grpc-Encoding", CompGzip})
				psc.Client.RawBody = appendFrame(nil, 1, compressBytes(CompGzip, nil))
				psc.Client.Compression = CompGzip
			}
		}
		psc.Config.Rules = c.Rules
		po := &Outcome{}
		pbr := &benchRun{sc: psc, out: po}
		ptr, perr := buildC17(c, pbr.serviceHandler())
		if perr != nil {
			return nil, psc
		}
		enc, _ := encodeRequest(psc)
		var done int32
		req, _, _, rerr := newRequest(enc.Method, enc.Target, enc.Header, enc.Body, false, -1, nil, false, &done)
		if rerr != nil {
			return nil, psc
		}
		rec := newRecorder(&done)
		func() {
			defer func() {
				if p := recover(); p != nil {
					po.Panic = fmt.Sprint(p)
				}
			}()
			ptr.ServeHTTP(rec, req)
		}()
		po.Rec = rec
		po.Sent = enc
		return po, psc
	}
	for _, r := range c.Rules {
		for _, b := range r.flat() {
			tm, perr := parseTemplate(b.Template)
			if perr != nil {
				continue
			}
			var segs []string
			for i, sg := range tm.Segs {
				switch sg.Kind {
				case segLit:
					segs = append(segs, pctEncode(sg.Lit))
				case segStar:
					segs = append(segs, fmt.Sprintf("fresh%d", i))
				default:
					segs = append(segs, fmt.Sprintf("fresh%d", i), "tail")
				}
			}
			// numeric variables need numeric text
			for _, v := range tm.Vars {
				if strings.HasSuffix(strings.Join(v.Path, "."), "int32_value") && v.Start < len(segs) {
					segs[v.Start] = "42"
				}
			}
			url := "/" + strings.Join(segs, "/")
			if tm.Verb != "" {
				url += ":" + pctEncode(tm.Verb)
			}
			po, _ := probe(b.Method, url, FormREST)
			if po == nil {
				continue
			}
			if po.Panic != "" {
				res.violate("panic", "panic:probe", "probe %s %s panicked: %s", b.Method, url, po.Panic)
				continue
			}
			want := r.Selector[strings.LastIndex(r.Selector, ".")+1:]
			got := ""
			if po.Backend != nil && po.Backend.MI != nil {
				got = po.Backend.MI.Name
			}
			if po.Backend != nil && po.Backend.Protocol == ProtoREST {
				// The service's only target is REST: the probe is handed on as the REST request it is, and
				// nothing in such a request names the method. Reaching the handler is what can be observed.
				continue
			}
			if got != want {
				res.violate("binding_unreachable", "c17:unreachable", "accepted rule %s %s for %s is not served: %s %s answered %d and reached %q", b.Method, b.Template, r.Selector, b.Method, url, po.Rec.Status, got)
			}
		}
	}
	// per-service options override the defaults, for every service and whatever the order of
	// registration: observe the wire form in which each dynamic service's backend is addressed
	for si := range c.Services {
		sp := &c.Services[si]
		switch sp.Kind {
		case "route":
			probeSvc, probeMethod = routeService, "A"
		case "bench":
			probeSvc, probeMethod = benchService, "Unary"
		default:
			continue
		}
		wantProtos := []string{ProtoConnect, ProtoGRPC, ProtoGRPCWeb}
		if c.Defaults.SetProtocols {
			wantProtos = c.Defaults.Protocols
		}
		if sp.SetProtocols {
			wantProtos = sp.Protocols
		}
		wantCodecs := []string{CodecProto, CodecJSON}
		if c.Defaults.SetCodecs {
			wantCodecs = c.Defaults.Codecs
		}
		if sp.SetCodecs {
			wantCodecs = sp.Codecs
		}
		wantComp := []string{CompGzip}
		if c.Defaults.SetCompress {
			wantComp = c.Defaults.Compressions
		}
		if c.Defaults.NoCompress {
			wantComp = nil
		}
		if sp.SetCompress {
			wantComp = sp.Compressions
		}
		if sp.NoCompress {
			wantComp = nil
		}
		if len(wantProtos) == 1 && wantProtos[0] == ProtoREST {
			continue // a REST leg speaks JSON whatever the codec list says; the bindings are probed above
		}
		for _, gz := range []bool{false, true} {
			probeGzip = gz
			po, _ := probe("POST", "/"+probeSvc+"/"+probeMethod, FormGRPCWeb)
			if po == nil || po.Panic != "" {
				continue
			}
			if po.Backend == nil {
				res.violate("probe_failed", "c17:options", "gRPC-Web probe (gzip=%v) of %s/%s was not dispatched (status %d)", gz, probeSvc, probeMethod, po.Rec.Status)
				continue
			}
			if !contains(wantProtos, po.Backend.Protocol) || (contains(wantProtos, ProtoGRPCWeb) && po.Backend.Protocol != ProtoGRPCWeb) {
				res.violate("option_ignored", "c17:options:protocol", "%s service (registered at position %d) resolves to protocols %v (defaults %v, service %v) but the backend was addressed with %s", sp.Kind, si, wantProtos, c.Defaults.Protocols, sp.Protocols, po.Backend.Protocol)
			}
			if !contains(wantCodecs, po.Backend.Codec) || (contains(wantCodecs, CodecProto) && po.Backend.Codec != CodecProto) {
				res.violate("option_ignored", "c17:options:codec", "%s service (registered at position %d) resolves to codecs %v (defaults %v, service %v) but the backend received codec %q", sp.Kind, si, wantCodecs, c.Defaults.Codecs, sp.Codecs, po.Backend.Codec)
			}
			if gz {
				want := ""
				if contains(wantComp, CompGzip) {
					want = CompGzip // the client's own compression is kept when the service accepts it
				}
				if po.Backend.Compression != want && !(want == "" && po.Backend.Compression == "identity") {
					res.violate("option_ignored", "c17:options:compression", "%s service (registered at position %d) resolves to compressions %v (defaults %v/no=%v, service %v/no=%v): a gzip request must reach the backend with compression %q, got %q", sp.Kind, si, wantComp, c.Defaults.Compressions, c.Defaults.NoCompress, sp.Compressions, sp.NoCompress, want, po.Backend.Compression)
				}
			}
		}
	}
	probeSvc, probeMethod, probeGzip = routeService, "A", false
	return res
}
