package verifbench

import (
	"fmt"
	"math/big"
	"regexp"
	"strings"
	"testing"

	"pgregory.net/rapid"
)

// C12 - deadlines are propagated to the backend and never extended.

const ruleC12 = "rapid draws timeout header values: gRPC 1-8 digits x {n,u,m,S,M,H} incl. zero, leading zeros, digit-count and unit-switch boundaries (10^k-1, 10^k, 10^8 of the next finer unit); Connect 1-10 digit milliseconds; REST decimal seconds with 0-9 fractional digits; no timeout; malformed strings (bad unit, sign, spaces, letters, empty number, decimal point where none is allowed) x 6 client forms x all target configurations. Oracle: client duration as exact big.Rat nanoseconds; the backend's timeout header parsed by an independent grammar of the target encoding; valid => backend invoked with d_backend <= d_client and d_client - d_backend < unit of the backend header (or clamped to the target maximum / dropped only above the documented 8 hour threshold); absent => absent; malformed => 4xx and zero backend invocations. Non-trivial = conversion between two different encodings with a non-zero value; distinct by hash(client form, target protocol, timeout string)."

func init() { registerScenarioProp("C12", ruleC12, checkC12) }

var grpcUnits = []string{"n", "u", "m", "S", "M", "H"}

func genGRPCTimeout(t *rapid.T) string {
	unit := rapid.SampledFrom(grpcUnits).Draw(t, "g_unit")
	var digits string
	switch rapid.IntRange(0, 5).Draw(t, "g_mode") {
	case 0:
		digits = rapid.SampledFrom([]string{"0", "1", "9", "10", "99", "100", "999", "1000", "9999", "10000", "99999", "100000", "999999", "1000000", "9999999", "10000000", "99999999", "60", "3600", "8", "7", "24"}).Draw(t, "g_pool")
	case 1:
		n := rapid.IntRange(1, 8).Draw(t, "g_len")
		digits = rapid.StringMatching(fmt.Sprintf("[0-9]{%d}", n)).Draw(t, "g_digits")
	case 2:
		digits = "0" + rapid.StringMatching("[0-9]{1,7}").Draw(t, "g_lead0")
	default:
		digits = fmt.Sprint(rapid.IntRange(0, 99999999).Draw(t, "g_num"))
	}
	return digits + unit
}

func genConnectTimeout(t *rapid.T) string {
	switch rapid.IntRange(0, 4).Draw(t, "c_mode") {
	case 0:
		return rapid.SampledFrom([]string{"0", "1", "9", "10", "99", "100", "999", "1000", "99999", "100000", "100000000", "99999999", "9999999999", "1000000000", "60000", "3600000", "28800000", "28800001", "86400000", "6000000", "5999999", "360000000"}).Draw(t, "c_pool")
	case 1:
		n := rapid.IntRange(1, 10).Draw(t, "c_len")
		return rapid.StringMatching(fmt.Sprintf("[0-9]{%d}", n)).Draw(t, "c_digits")
	default:
		return fmt.Sprint(rapid.Int64Range(0, 9999999999).Draw(t, "c_num"))
	}
}

func genRESTTimeout(t *rapid.T) string {
	switch rapid.IntRange(0, 4).Draw(t, "r_mode") {
	case 0:
		return rapid.SampledFrom([]string{"0", "1", "0.1", "0.001", "1.001", "0.000000001", "0.3", "1.5", "2.675", "100", "0.1", "100000", "99999.999", "28800", "28800.000000001", "3600", "59.999999999", "0.000001", "1000000000", "4.35", "0.07", "8.2"}).Draw(t, "r_pool")
	case 1:
		return fmt.Sprint(rapid.IntRange(0, 100000000).Draw(t, "r_int"))
	default:
		ip := rapid.IntRange(0, 100000).Draw(t, "r_ip")
		n := rapid.IntRange(1, 9).Draw(t, "r_fraclen")
		return fmt.Sprintf("%d.%s", ip, rapid.StringMatching(fmt.Sprintf("[0-9]{%d}", n)).Draw(t, "r_frac"))
	}
}

var malformedTimeouts = map[string][]string{
	// (the gRPC grammar allows at most 8 digits: longer values are malformed whatever their unit)
	ProtoGRPC:    {"abc", "12x", "S", "-5S", "1 S", "1.5S", "5s", "5h", "12", "1SS", "0x1fS", "１S", "100000000S", "999999999H", "100000000H", "123456789n", "999999999999n"},
	ProtoConnect: {"abc", "12x", "-5", "1 0", "1.5", "0x10", "1e3", "１"},
	ProtoREST:    {"abc", "12x", "1.5.2", "1 0", "1,5", "--1", "１", "NaN", "nan"},
}

var grayTimeouts = map[string][]string{
	ProtoGRPC:    {"+1S", "099999999S", "000000000001S"}, // leading zeros beyond 8 digits: the value is expressible, the spelling is not
	ProtoConnect: {"+5", "18446744073710", "20000000000000", "40000000000000", "9223372036855", "30000000000000", "18446744073709552", "10000000000", "99999999999999999999", "00000000001", "9223372036854775807"},
	ProtoREST:    {"Inf", "-1", "-0", "1e3", "1E-3", "0x10", "+5", ".5", "5.", "1_000", "1e400", "0.0000000001", "123456789012345678901234567890"},
}

func TestC12(t *testing.T) {
	enumerateC12(t)
	rapid.Check(t, func(t *rapid.T) {
		o := genOpts{maxBlob: 4, noText: true, methods: []string{"Unary", "UnaryGet", "Params", "ServerStream", "ClientStream"}}
		sc := genScenario(t, o)
		sc.Client.Compression = ""
		sc.Client.MsgRaw = nil
		p := formProtocol(sc.Client.Form)
		if p == ProtoGRPCWeb {
			p = ProtoGRPC
		}
		switch rapid.IntRange(0, 9).Draw(t, "timeout_class") {
		case 0:
			sc.Note = "none"
		case 1:
			sc.Client.Timeout = rapid.SampledFrom(malformedTimeouts[p]).Draw(t, "malformed")
			sc.Note = "malformed"
		case 2:
			sc.Client.Timeout = rapid.SampledFrom(grayTimeouts[p]).Draw(t, "gray")
			sc.Note = "gray"
		default:
			switch p {
			case ProtoGRPC:
				sc.Client.Timeout = genGRPCTimeout(t)
			case ProtoConnect:
				sc.Client.Timeout = genConnectTimeout(t)
			default:
				sc.Client.Timeout = genRESTTimeout(t)
			}
			sc.Note = "valid"
		}
		judge(t, "C12", sc, checkC12(sc))
	})
}

var (
	grpcTORe    = regexp.MustCompile(`^([0-9]{1,8})([HMSmun])$`)
	connectTORe = regexp.MustCompile(`^[0-9]{1,10}$`)
	restTORe    = regexp.MustCompile(`^[0-9]+(\.[0-9]+)?$`)
)

var unitNanos = map[string]int64{"n": 1, "u": 1000, "m": 1000000, "S": 1000000000, "M": 60 * 1000000000, "H": 3600 * 1000000000}

// parseTimeoutRef parses a timeout header of the given encoding into exact
// nanoseconds and the rounding unit of that representation.
func parseTimeoutRef(proto, s string) (d *big.Rat, unit *big.Rat, ok bool) {
	switch proto {
	case ProtoGRPC, ProtoGRPCWeb:
		m := grpcTORe.FindStringSubmatch(s)
		if m == nil {
			return nil, nil, false
		}
		n, _ := new(big.Int).SetString(m[1], 10)
		u := big.NewInt(unitNanos[m[2]])
		return new(big.Rat).SetInt(new(big.Int).Mul(n, u)), new(big.Rat).SetInt(u), true
	case ProtoConnect:
		if !connectTORe.MatchString(s) {
			return nil, nil, false
		}
		n, _ := new(big.Int).SetString(s, 10)
		return new(big.Rat).SetInt(new(big.Int).Mul(n, big.NewInt(1000000))), big.NewRat(1000000, 1), true
	default:
		if !restTORe.MatchString(s) {
			return nil, nil, false
		}
		r, ok := new(big.Rat).SetString(s)
		if !ok {
			return nil, nil, false
		}
		return r.Mul(r, big.NewRat(1000000000, 1)), big.NewRat(1, 1), true
	}
}

var eightHours = new(big.Rat).SetInt64(8 * 3600 * 1000000000)

func targetMax(proto string) *big.Rat {
	switch proto {
	case ProtoGRPC, ProtoGRPCWeb:
		return new(big.Rat).SetInt(new(big.Int).Mul(big.NewInt(99999999), big.NewInt(unitNanos["H"])))
	case ProtoConnect:
		return new(big.Rat).SetInt(new(big.Int).Mul(big.NewInt(9999999999), big.NewInt(1000000)))
	}
	return nil
}

func checkC12(sc *Scenario) *CheckResult {
	res := &CheckResult{}
	out := runScenario(sc)
	if out.BuildErr != "" || out.ConfigErr != "" {
		res.Skipped = true
		return res
	}
	if panicViolation(res, out) {
		return res
	}
	c := &sc.Client
	cv := out.Client
	view := out.Backend
	cp := formProtocol(c.Form)
	tp := "-"
	if view != nil {
		tp = view.Protocol
	}
	res.class("class=%s client=%s target=%s outcome=%s", sc.Note, cp, tp, cv.outcome())
	res.Key = fmt.Sprintf("%s|%s|%s", c.Form, tp, c.Timeout)
	res.Sample = map[string]any{"client_form": c.Form, "client_timeout": c.Timeout, "class": sc.Note, "target": tp, "client_status": cv.Status}
	if view != nil {
		res.Sample.(map[string]any)["backend_header"] = view.TimeoutHdr + ": " + view.Timeout
	}
	allTO := func() []string {
		var hs []string
		if view == nil {
			return nil
		}
		for _, h := range []string{"Grpc-Timeout", "Connect-Timeout-Ms", "X-Server-Timeout"} {
			if h == "X-Server-Timeout" && cp == ProtoREST && view.Protocol != ProtoREST {
				continue // the client's own header left in place next to the converted one (harmless extra)
			}
			for _, v := range view.Header.Values(h) {
				hs = append(hs, h+": "+v)
			}
		}
		return hs
	}
	switch sc.Note {
	case "none":
		if view != nil && len(allTO()) > 0 {
			res.violate("timeout_invented", "c12:invented", "client sent no timeout but the backend sees %v", allTO())
		}
		return res
	case "malformed":
		if out.Invocations > 0 {
			res.violate("malformed_dispatched", "c12:malformed", "malformed timeout %q (%s) reached the backend (header %q)", c.Timeout, cp, allTO())
		}
		if cv.Status < 400 || cv.Status > 499 {
			res.violate("malformed_status", "c12:malformed", "malformed timeout %q (%s) answered with HTTP %d, want a 4xx client error", c.Timeout, cp, cv.Status)
		}
		return res
	}
	dc, _, ok := parseTimeoutRef(cp, c.Timeout)
	if sc.Note == "valid" && !ok {
		res.violate("harness", "harness", "generator produced %q which the reference grammar rejects", c.Timeout)
		return res
	}
	if view == nil {
		if sc.Note == "valid" && cv.HTTPLevel && cv.Status >= 400 && cv.Status < 500 && cv.Status != 404 && cv.Status != 405 && cv.Status != 415 {
			res.violate("valid_rejected", "c12:rejected", "syntactically valid timeout %q (%s) was rejected with HTTP %d before the backend was invoked", c.Timeout, cp, cv.Status)
		}
		return res
	}
	// the header the backend sees must be valid in the target grammar
	samePassThrough := clientTriple(c, out.Sent) == view.triple()
	if view.HasTimeout && !(sc.Note == "gray" && samePassThrough) {
		if _, _, okb := parseTimeoutRef(view.Protocol, view.Timeout); !okb {
			res.violate("invalid_backend_header", "c12:grammar", "backend received %s: %q which is not valid for %s (client sent %q)", view.TimeoutHdr, view.Timeout, view.Protocol, c.Timeout)
			return res
		}
	}
	if sc.Note == "gray" {
		// over-long but purely numeric values still have one sensible reading: the number
		var ok2 bool
		switch {
		case cp == ProtoConnect && regexp.MustCompile(`^[0-9]+$`).MatchString(c.Timeout):
			n, _ := new(big.Int).SetString(c.Timeout, 10)
			dc, ok2 = new(big.Rat).SetInt(new(big.Int).Mul(n, big.NewInt(1000000))), true
		case (cp == ProtoGRPC || cp == ProtoGRPCWeb) && regexp.MustCompile(`^[0-9]+[HMSmun]$`).MatchString(c.Timeout):
			n, _ := new(big.Int).SetString(c.Timeout[:len(c.Timeout)-1], 10)
			dc, ok2 = new(big.Rat).SetInt(new(big.Int).Mul(n, big.NewInt(unitNanos[c.Timeout[len(c.Timeout)-1:]]))), true
		}
		if !ok2 || samePassThrough {
			return res
		}
		res.class("gray_numeric")
	}
	res.NonTrivial = cp != view.Protocol && dc.Sign() > 0 && !(cp == ProtoGRPCWeb && view.Protocol == ProtoGRPC) && !(cp == ProtoGRPC && view.Protocol == ProtoGRPCWeb)
	if !view.HasTimeout {
		if dc.Cmp(eightHours) <= 0 {
			res.violate("timeout_dropped", "c12:dropped", "client timeout %q (%s ns) did not reach the %s backend at all", c.Timeout, dc.FloatString(0), view.Protocol)
		}
		return res
	}
	db, unit, _ := parseTimeoutRef(view.Protocol, view.Timeout)
	// X-Server-Timeout is a float rendering of seconds: noise below one nanosecond (the
	// resolution of every receiver) is not an extension (DESIGN appendix B)
	if view.Protocol == ProtoREST && db.Cmp(dc) > 0 && new(big.Rat).Sub(db, dc).Cmp(big.NewRat(1, 1)) < 0 {
		db = dc
	}
	if db.Cmp(dc) > 0 {
		res.violate("timeout_extended", "c12:extended", "client timeout %q = %s ns reached the %s backend as %q = %s ns (longer)", c.Timeout, dc.FloatString(3), view.Protocol, view.Timeout, db.FloatString(3))
		return res
	}
	short := new(big.Rat).Sub(dc, db)
	if short.Cmp(unit) >= 0 {
		if mx := targetMax(view.Protocol); mx != nil && dc.Cmp(mx) > 0 && db.Cmp(mx) == 0 {
			res.class("clamped")
			return res
		}
		// beyond what a 64-bit nanosecond duration can hold: any clamp that is still above the
		// documented practical threshold counts as "clamped to the representable range"
		if dc.Cmp(new(big.Rat).SetInt64(1<<63-1)) > 0 && db.Cmp(eightHours) > 0 {
			res.class("clamped_representable")
			return res
		}
		res.violate("timeout_shortened", "c12:shortened", "client timeout %q = %s ns reached the %s backend as %q = %s ns: short by %s ns, rounding unit is %s ns", c.Timeout, dc.FloatString(3), view.Protocol, view.Timeout, db.FloatString(3), short.FloatString(3), unit.FloatString(3))
	}
	if cp == view.Protocol && strings.TrimLeft(view.Timeout, "0") != strings.TrimLeft(c.Timeout, "0") && db.Cmp(dc) != 0 {
		res.violate("passthrough_changed", "c12:passthrough", "same protocol: timeout %q became %q", c.Timeout, view.Timeout)
	}
	return res
}
