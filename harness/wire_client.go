package verifbench

// Reference wire layer, part 2: the client side. encodeRequest renders a
// Scenario's client request in one of the six wire forms; parseClientResponse
// is the strict per-form validator/decoder of what the transcoder wrote back.

import (
	"encoding/base64"
	"encoding/json"
	"errors"
	"fmt"
	"io"
	"net/http"
	"strings"

	"google.golang.org/protobuf/proto"
)

type encodedRequest struct {
	Method  string
	Target  string // path?query as put on the request line
	Header  []KV
	Body    []byte // nil: no body at all
	BodyErr error  // error the body reader reports at the end instead of io.EOF
	Msgs    []proto.Message
	Frames  []Frame // for enveloped forms, what was framed
	MI      *methodInfo
	Rule    *RuleSpec // REST binding used
	REST    *RESTRequest
	Payloads [][]byte // per message: encoded, uncompressed payload as sent
	DeclaredCL int64  // -1: no Content-Length
}

var timeoutHeaderByForm = map[string]string{
	FormConnectUnary: "Connect-Timeout-Ms", FormConnectGet: "Connect-Timeout-Ms", FormConnectStream: "Connect-Timeout-Ms",
	FormGRPC: "Grpc-Timeout", FormGRPCWeb: "Grpc-Timeout", FormREST: "X-Server-Timeout",
}

func flatBindings(service, method string) []RuleSpec {
	if service == benchService {
		if r := benchRuleFor(method); r != nil {
			return r.flat()
		}
		return nil
	}
	if service != routeService {
		return annotationBindings(service, method)
	}
	return nil
}

func bindingsFor(sc *Scenario, service, method string) []RuleSpec {
	var out []RuleSpec
	out = append(out, flatBindings(service, method)...)
	full := service + "." + method
	for _, r := range sc.Config.Rules {
		if selectorMatches(r.Selector, full) {
			out = append(out, r.flat()...)
		}
	}
	return out
}

// selectorMatches: exact method name, or a '*'-terminated prefix ending at a
// name boundary.
func selectorMatches(sel, full string) bool {
	if sel == "*" {
		return true
	}
	if strings.HasSuffix(sel, ".*") {
		return strings.HasPrefix(full, sel[:len(sel)-1])
	}
	return sel == full
}

func encodeRequest(sc *Scenario) (*encodedRequest, error) {
	c := &sc.Client
	if c.UseRaw {
		enc := &encodedRequest{Method: c.RawMethod, Target: c.RawTarget, Header: append([]KV(nil), c.RawHeader...), Body: c.RawBody}
		enc.MI = lookupMethod(c.service(), c.Method)
		enc.finish(sc)
		return enc, nil
	}
	mi := lookupMethod(c.service(), c.Method)
	if mi == nil {
		return nil, fmt.Errorf("unknown method %s/%s", c.service(), c.Method)
	}
	enc := &encodedRequest{MI: mi}
	for _, b := range c.Msgs {
		m := newMessage(mi.In)
		if err := proto.Unmarshal(b, m); err != nil {
			return nil, fmt.Errorf("scenario message does not parse: %w", err)
		}
		enc.Msgs = append(enc.Msgs, m)
	}
	add := func(k, v string) { enc.Header = append(enc.Header, KV{k, v}) }
	payload := func(i int) ([]byte, error) {
		p, err := encodeMsg(c.Codec, c.JSON, enc.Msgs[i])
		if err != nil {
			return nil, err
		}
		enc.Payloads = append(enc.Payloads, p)
		return p, nil
	}
	raw := func(i int) bool { return i < len(c.MsgRaw) && c.MsgRaw[i] }
	switch c.Form {
	case FormConnectUnary:
		if len(enc.Msgs) != 1 {
			return nil, errors.New("connect unary needs exactly one message")
		}
		enc.Method, enc.Target = "POST", mi.Path
		add("Content-Type", "application/"+c.Codec)
		add("Connect-Protocol-Version", "1")
		p, err := payload(0)
		if err != nil {
			return nil, err
		}
		if c.Compression != "" {
			add("Content-Encoding", c.Compression)
			if !raw(0) {
				p = compressBytes(c.Compression, p)
			}
		}
		if len(c.Accept) > 0 {
			add("Accept-Encoding", strings.Join(c.Accept, ", "))
		}
		enc.Body = p
	case FormConnectGet:
		if len(enc.Msgs) != 1 {
			return nil, errors.New("connect GET needs exactly one message")
		}
		p, err := payload(0)
		if err != nil {
			return nil, err
		}
		q := []string{"encoding=" + queryEscape(c.Codec)}
		b64 := c.Codec == CodecProto || c.GetBase64
		if c.Compression != "" {
			q = append(q, "compression="+queryEscape(c.Compression))
			p = compressBytes(c.Compression, p)
			b64 = true
		}
		if b64 {
			e := base64.RawURLEncoding
			if c.GetPadded {
				e = base64.URLEncoding
			}
			q = append(q, "base64=1", "message="+queryEscape(e.EncodeToString(p)))
		} else {
			q = append(q, "message="+queryEscape(string(p)))
		}
		if !c.NoVersion {
			q = append(q, "connect=v1")
		}
		enc.Method, enc.Target = "GET", mi.Path+"?"+strings.Join(q, "&")
		if c.GetVersionHeader {
			// the protocol version may (also) be announced in the header, as on POST
			add("Connect-Protocol-Version", "1")
		}
		if len(c.Accept) > 0 {
			add("Accept-Encoding", strings.Join(c.Accept, ", "))
		}
	case FormConnectStream, FormGRPC, FormGRPCWeb:
		enc.Method, enc.Target = "POST", mi.Path
		switch c.Form {
		case FormConnectStream:
			add("Content-Type", "application/connect+"+c.Codec)
			if c.Compression != "" {
				add("Connect-Content-Encoding", c.Compression)
			}
			if len(c.Accept) > 0 {
				add("Connect-Accept-Encoding", strings.Join(c.Accept, ", "))
			}
		case FormGRPC:
			if c.BareContentType && c.Codec == CodecProto {
				add("Content-Type", "application/grpc") // no sub-format means proto
			} else {
				add("Content-Type", "application/grpc+"+c.Codec)
			}
			add("Te", "trailers")
		case FormGRPCWeb:
			if c.BareContentType && c.Codec == CodecProto {
				add("Content-Type", "application/grpc-web")
			} else {
				add("Content-Type", "application/grpc-web+"+c.Codec)
			}
		}
		if c.Form != FormConnectStream {
			if c.Compression != "" {
				add("Grpc-Encoding", c.Compression)
			}
			if len(c.Accept) > 0 {
				add("Grpc-Accept-Encoding", strings.Join(c.Accept, ", "))
			}
		}
		body := []byte{}
		for i := range enc.Msgs {
			p, err := payload(i)
			if err != nil {
				return nil, err
			}
			flags := byte(0)
			if c.Compression != "" && !raw(i) {
				p = compressBytes(c.Compression, p)
				flags = 1
			}
			enc.Frames = append(enc.Frames, Frame{Flags: flags, Payload: p})
			body = appendFrame(body, flags, p)
		}
		enc.Body = body
	case FormREST:
		bs := bindingsFor(sc, c.service(), c.Method)
		if len(bs) == 0 {
			return nil, fmt.Errorf("method %s has no REST binding", c.Method)
		}
		rule := bs[c.Binding%len(bs)]
		enc.Rule = &rule
		if len(enc.Msgs) != 1 {
			return nil, errors.New("REST needs exactly one message")
		}
		rr, err := renderREST(rule, enc.Msgs[0], c.Param, c.JSON)
		if err != nil {
			return nil, err
		}
		enc.REST = rr
		enc.Method = rr.Method
		enc.Target = rr.RawPath
		for _, kv := range c.ExtraQuery {
			if rr.RawQuery != "" {
				rr.RawQuery += "&"
			}
			rr.RawQuery += queryEscape(kv.K) + "=" + queryEscape(kv.V)
		}
		if rr.RawQuery != "" {
			enc.Target += "?" + rr.RawQuery
		}
		if rr.HasBody {
			if rr.BodyCT != "" {
				add("Content-Type", rr.BodyCT)
			}
			b := rr.Body
			if b == nil {
				b = []byte{}
			}
			enc.Payloads = append(enc.Payloads, b)
			if c.Compression != "" {
				add("Content-Encoding", c.Compression)
				b = compressBytes(c.Compression, b)
			}
			enc.Body = b
		}
		if len(c.Accept) > 0 {
			add("Accept-Encoding", strings.Join(c.Accept, ", "))
		}
	default:
		return nil, fmt.Errorf("unknown client form %q", c.Form)
	}
	if c.Timeout != "" {
		add(timeoutHeaderByForm[c.Form], c.Timeout)
	}
	if c.Identity && c.Compression == "" && enc.Body != nil {
		switch c.Form {
		case FormConnectUnary, FormREST:
			add("Content-Encoding", "identity")
		case FormConnectStream:
			add("Connect-Content-Encoding", "identity")
		case FormGRPC, FormGRPCWeb:
			add("Grpc-Encoding", "identity")
		}
	}
	enc.Header = append(enc.Header, c.Headers...)
	enc.finish(sc)
	return enc, nil
}

func applyOverride(hdr []KV, ov []KV) []KV {
	for _, o := range ov {
		var out []KV
		for _, kv := range hdr {
			if !strings.EqualFold(kv.K, o.K) {
				out = append(out, kv)
			}
		}
		if o.V != "" {
			out = append(out, o)
		}
		hdr = out
	}
	return hdr
}

func (enc *encodedRequest) finish(sc *Scenario) {
	enc.Header = applyOverride(enc.Header, sc.Client.Override)
	if sc.Client.TargetOverride != "" {
		enc.Target = sc.Client.TargetOverride
	}
	if sc.Client.MethodOverride != "" {
		enc.Method = sc.Client.MethodOverride
	}
	enc.DeclaredCL = -1
	if sc.Client.DeclareCL && enc.Body != nil {
		enc.DeclaredCL = int64(len(enc.Body))
	}
	applyRequestFault(sc, enc)
}

// ---- the client's view of the response ------------------------------------------

type ClientView struct {
	Form       string
	Status     int
	HTTPLevel  bool     // answered with a bare HTTP error outside the RPC protocol
	OK         bool     // RPC ended OK
	Err        *ErrSpec // RPC ended with this error
	Msgs       []proto.Message
	Payloads   [][]byte // uncompressed payloads
	WireSizes  []int
	Compressed []bool
	Frames     []Frame
	Headers    http.Header // application response headers
	Trailers   http.Header // application trailers
	Problems   []string    // violations of the client protocol's wire rules
	Ends       int         // number of terminal dispositions seen
	RespCodec  string
	RespComp   string
	Incomplete string // the body stops inside a frame (description), "" otherwise
	TailOK     bool   // bytes after a truncated payload form a well-formed end
	ContentType string
}

func (v *ClientView) problem(f string, a ...any) {
	v.Problems = append(v.Problems, fmt.Sprintf(f, a...))
}

func (v *ClientView) outcome() string {
	switch {
	case v == nil:
		return "none"
	case v.HTTPLevel:
		return fmt.Sprintf("http%d", v.Status)
	case v.OK:
		return "ok"
	case v.Err != nil:
		return "err:" + codeName(v.Err.Code)
	}
	return "undetermined"
}

var protocolRespHeaders = map[string]bool{
	"Content-Type": true, "Content-Length": true, "Content-Encoding": true, "Accept-Encoding": true,
	"Grpc-Encoding": true, "Grpc-Accept-Encoding": true, "Grpc-Status": true, "Grpc-Message": true,
	"Grpc-Status-Details-Bin": true, "Connect-Content-Encoding": true, "Connect-Accept-Encoding": true,
	"Trailer": true, "Date": true, "Transfer-Encoding": true, "Connection": true, "X-Content-Type-Options": true,
	"Allow": true,
}

func appHeaders(h http.Header, dropPrefix string) http.Header {
	out := http.Header{}
	for k, v := range h {
		if protocolRespHeaders[k] {
			continue
		}
		if dropPrefix != "" && strings.HasPrefix(k, dropPrefix) {
			continue
		}
		out[k] = append([]string(nil), v...)
	}
	return out
}

func parseClientResponse(sc *Scenario, enc *encodedRequest, rec *Recorder, trailers http.Header) *ClientView {
	v := &ClientView{Form: sc.Client.Form, Status: rec.Status, Headers: http.Header{}, Trailers: http.Header{}}
	if !rec.Wrote {
		// net/http answers 200 with an empty body when the handler wrote nothing
		v.Status = 200
		rec.Head = http.Header{}
		v.problem("no response head was written")
	}
	head := rec.Head
	body := rec.Body.Bytes()
	v.ContentType = head.Get("Content-Type")
	if len(head.Values("Content-Type")) > 1 {
		v.problem("multiple Content-Type headers: %q", head.Values("Content-Type"))
	}
	if cl := head.Get("Content-Length"); cl != "" {
		if cl != fmt.Sprint(len(body)) {
			v.problem("Content-Length %s but %d body bytes were written", cl, len(body))
		}
	}
	for _, a := range rec.Anomalies {
		v.problem("writer: %s", a)
	}
	form := sc.Client.Form
	if sc.Client.UseRaw {
		form = guessForm(sc)
		v.Form = form
	}
	outType := ""
	if enc.MI != nil {
		outType = enc.MI.Out
	}
	switch form {
	case FormGRPC, FormGRPCWeb:
		parseGRPCFamily(v, form, sc, outType, head, body, trailers)
	case FormConnectStream:
		parseConnectStream(v, sc, outType, head, body, trailers)
	case FormConnectUnary, FormConnectGet:
		parseConnectUnary(v, sc, outType, head, body, trailers)
	case FormREST:
		parseREST(v, sc, enc, outType, head, body, trailers)
	default:
		v.HTTPLevel = true
	}
	return v
}

// guessForm classifies a raw request the way a client that sent it would read
// the answer (by content-type).
func guessForm(sc *Scenario) string {
	ct := ""
	for _, kv := range sc.Client.RawHeader {
		if strings.EqualFold(kv.K, "Content-Type") {
			ct = kv.V
		}
	}
	switch {
	case strings.HasPrefix(ct, "application/connect+"):
		return FormConnectStream
	case ct == "application/grpc" || strings.HasPrefix(ct, "application/grpc+"):
		return FormGRPC
	case ct == "application/grpc-web" || strings.HasPrefix(ct, "application/grpc-web+"):
		return FormGRPCWeb
	}
	if sc.Client.Form != "" {
		return sc.Client.Form
	}
	return FormREST
}

func (v *ClientView) httpLevel(status int) {
	v.HTTPLevel = true
	v.Err = &ErrSpec{Code: codeForHTTPStatus(status)}
	v.Ends = 1
}

func (v *ClientView) decodePayload(codec, comp string, fr Frame, compressed bool, outType string) {
	p := fr.Payload
	v.WireSizes = append(v.WireSizes, len(p))
	v.Compressed = append(v.Compressed, compressed)
	if compressed {
		if comp == "" {
			v.problem("frame has the compressed flag but the response declares no compression")
			v.Payloads = append(v.Payloads, nil)
			v.Msgs = append(v.Msgs, nil)
			return
		}
		inflate := decompressBytes
		if fr.InBand {
			inflate = decompressFrame
		}
		d, err := inflate(comp, p)
		if err != nil {
			v.problem("frame flagged compressed does not inflate with %s: %v", comp, err)
			v.Payloads = append(v.Payloads, nil)
			v.Msgs = append(v.Msgs, nil)
			return
		}
		p = d
	}
	v.Payloads = append(v.Payloads, p)
	if outType == "" {
		v.Msgs = append(v.Msgs, nil)
		return
	}
	m, err := decodeMsg(codec, p, outType)
	if err != nil {
		v.problem("payload does not decode as %s %s: %v", codec, outType, err)
		v.Msgs = append(v.Msgs, nil)
		return
	}
	v.Msgs = append(v.Msgs, m)
}

func checkCompressionName(v *ClientView, sc *Scenario, name, hdr string) {
	if name == "" || name == "identity" {
		return
	}
	if name != CompGzip && name != CompDeflate {
		v.problem("%s names unknown compression %q", hdr, name)
	}
}

func parseGRPCFamily(v *ClientView, form string, sc *Scenario, outType string, head http.Header, body []byte, trailers http.Header) {
	if v.Status != 200 {
		v.httpLevel(v.Status)
		return
	}
	prefix := "application/grpc"
	if form == FormGRPCWeb {
		prefix = "application/grpc-web"
	}
	ct := head.Get("Content-Type")
	codec := ""
	switch {
	case ct == prefix:
		codec = CodecProto
	case strings.HasPrefix(ct, prefix+"+"):
		codec = ct[len(prefix)+1:]
	default:
		v.problem("content-type %q is not %s[+codec]", ct, prefix)
	}
	v.RespCodec = codec
	comp := head.Get("Grpc-Encoding")
	if comp == "identity" {
		comp = ""
	}
	v.RespComp = comp
	checkCompressionName(v, sc, comp, "Grpc-Encoding")
	// status in headers (trailers-only)?
	inHead, headErr, hp := parseGRPCStatus(head)
	for _, p := range hp {
		v.problem("headers: %s", p)
	}
	frames, ferr := parseFrames(body)
	v.Frames = frames
	if ferr != nil {
		v.Incomplete = ferr.Error()
	}
	var trailerFrame *Frame
	dataAfterEnd := false
	for i := range frames {
		fr := frames[i]
		switch {
		case form == FormGRPCWeb && fr.Flags&0x80 != 0:
			if fr.Flags&^0x81 != 0 {
				v.problem("gRPC-Web frame %d has invalid flags 0x%02x", i, fr.Flags)
			}
			if trailerFrame != nil {
				v.problem("more than one trailer frame")
			}
			f := fr
			trailerFrame = &f
		case fr.Flags == 0 || fr.Flags == 1:
			if trailerFrame != nil {
				dataAfterEnd = true
			}
			v.decodePayload(codec, comp, fr, fr.Flags == 1, outType)
		default:
			v.problem("frame %d has invalid flags 0x%02x", i, fr.Flags)
		}
	}
	if dataAfterEnd {
		v.problem("message data follows the trailer frame")
	}
	var endTr http.Header
	var inEnd bool
	var endErr *ErrSpec
	if form == FormGRPCWeb {
		if trailerFrame != nil {
			p := trailerFrame.Payload
			if trailerFrame.Flags&1 != 0 {
				d, err := decompressFrame(comp, p)
				if err != nil {
					v.problem("compressed trailer frame does not inflate: %v", err)
				}
				p = d
			}
			endTr = http.Header{}
			for _, line := range strings.Split(string(p), "\r\n") {
				if line == "" {
					continue
				}
				k, val, ok := strings.Cut(line, ":")
				if !ok {
					v.problem("malformed line %q in trailer frame", line)
					continue
				}
				endTr.Add(http.CanonicalHeaderKey(strings.TrimSpace(k)), strings.TrimSpace(val))
			}
			var tp []string
			inEnd, endErr, tp = parseGRPCStatus(endTr)
			for _, p := range tp {
				v.problem("trailer frame: %s", p)
			}
			if !inEnd {
				v.problem("trailer frame carries no grpc-status")
			}
			if ferr == nil && len(frames) > 0 && frames[len(frames)-1].Flags&0x80 == 0 {
				v.problem("trailer frame is not the last frame")
			}
		}
		if len(trailers) > 0 {
			for k := range trailers {
				if strings.HasPrefix(k, "Grpc-") {
					v.problem("gRPC-Web response also carries HTTP trailer %s=%q", k, trailers[k])
				}
			}
		}
	} else {
		endTr = trailers
		var tp []string
		inEnd, endErr, tp = parseGRPCStatus(trailers)
		for _, p := range tp {
			v.problem("trailers: %s", p)
		}
	}
	// exactly one disposition
	switch {
	case inHead && inEnd:
		// consistent duplicate is tolerated (DESIGN 2.1); contradiction is not
		if (headErr == nil) != (endErr == nil) || (headErr != nil && endErr != nil && headErr.Code != endErr.Code) {
			v.problem("status in headers (%s) contradicts status at the end (%s)", headErr, endErr)
		}
		v.Ends = 1
		v.Err = headErr
		if len(body) > 0 && form == FormGRPC {
			v.problem("trailers-only response carries a body of %d bytes", len(body))
		}
	case inHead:
		v.Ends = 1
		v.Err = headErr
		if len(v.Msgs) > 0 || (form == FormGRPC && len(body) > 0) {
			v.problem("status in response headers but the body carries data")
		}
	case inEnd:
		v.Ends = 1
		v.Err = endErr
	default:
		v.Ends = 0
		v.problem("no grpc-status anywhere: the RPC has no terminal disposition")
		v.Err = &ErrSpec{Code: 2, Message: "missing status"}
	}
	v.OK = v.Ends == 1 && v.Err == nil
	if ferr != nil {
		v.OK = false
		if v.Err == nil {
			v.Err = &ErrSpec{Code: 13, Message: "truncated body"}
		}
	}
	v.Headers = appHeaders(head, "")
	if inHead {
		// trailers-only: metadata may legitimately sit in the header block
	}
	for k, val := range endTr {
		if k == "Grpc-Status" || k == "Grpc-Message" || k == "Grpc-Status-Details-Bin" {
			continue
		}
		v.Trailers[k] = append([]string(nil), val...)
	}
}

func parseConnectStream(v *ClientView, sc *Scenario, outType string, head http.Header, body []byte, trailers http.Header) {
	if v.Status != 200 {
		v.httpLevel(v.Status)
		return
	}
	ct := head.Get("Content-Type")
	codec := ""
	if strings.HasPrefix(ct, "application/connect+") {
		codec = ct[len("application/connect+"):]
	} else {
		v.problem("content-type %q is not application/connect+codec", ct)
	}
	v.RespCodec = codec
	comp := head.Get("Connect-Content-Encoding")
	if comp == "identity" {
		comp = ""
	}
	v.RespComp = comp
	checkCompressionName(v, sc, comp, "Connect-Content-Encoding")
	frames, ferr := parseFrames(body)
	v.Frames = frames
	if ferr != nil {
		v.Incomplete = ferr.Error()
	}
	ended := false
	for i, fr := range frames {
		if fr.Flags&^3 != 0 {
			v.problem("frame %d has invalid flags 0x%02x", i, fr.Flags)
			continue
		}
		if fr.Flags&2 != 0 {
			if ended {
				v.problem("more than one end-of-stream frame")
			}
			ended = true
			v.Ends++
			p := fr.Payload
			if fr.Flags&1 != 0 {
				d, err := decompressFrame(comp, p)
				if err != nil {
					v.problem("compressed end-stream frame does not inflate: %v", err)
				}
				p = d
			}
			var end connectEndJSON
			if err := json.Unmarshal(p, &end); err != nil {
				v.problem("end-of-stream frame is not valid JSON: %v", err)
				v.Err = &ErrSpec{Code: 2}
				continue
			}
			if len(end.Error) > 0 && string(end.Error) != "null" {
				e, ps := parseConnectErrorJSON(end.Error)
				for _, p := range ps {
					v.problem("end-of-stream: %s", p)
				}
				if e == nil {
					e = &ErrSpec{Code: 2}
				}
				v.Err = e
			}
			for k, vals := range end.Metadata {
				v.Trailers[http.CanonicalHeaderKey(k)] = append(v.Trailers[http.CanonicalHeaderKey(k)], vals...)
			}
			continue
		}
		if ended {
			v.problem("message data follows the end-of-stream frame")
		}
		v.decodePayload(codec, comp, fr, fr.Flags&1 != 0, outType)
	}
	if !ended {
		v.problem("no end-of-stream frame: the RPC has no terminal disposition")
		v.Err = &ErrSpec{Code: 2, Message: "missing end"}
	}
	for k := range trailers {
		if strings.HasPrefix(k, "Grpc-") {
			v.problem("Connect streaming response also carries HTTP trailer %s=%q", k, trailers[k])
		}
	}
	v.OK = v.Ends == 1 && v.Err == nil && ferr == nil
	if ferr != nil && v.Err == nil {
		v.Err = &ErrSpec{Code: 13, Message: "truncated body"}
	}
	v.Headers = appHeaders(head, "")
}

func parseConnectUnary(v *ClientView, sc *Scenario, outType string, head http.Header, body []byte, trailers http.Header) {
	ct := head.Get("Content-Type")
	v.Headers = appHeaders(head, "Trailer-")
	for k, vals := range head {
		if strings.HasPrefix(k, "Trailer-") {
			v.Trailers[strings.TrimPrefix(k, "Trailer-")] = append([]string(nil), vals...)
		}
	}
	for k := range trailers {
		if strings.HasPrefix(k, "Grpc-") {
			v.problem("Connect unary response also carries HTTP trailer %s=%q", k, trailers[k])
		}
	}
	for k := range head {
		if k == "Grpc-Status" || k == "Grpc-Message" || k == "Grpc-Status-Details-Bin" || k == "Grpc-Encoding" {
			v.problem("Connect unary response carries gRPC control header %s=%q", k, head[k])
		}
	}
	v.Ends = 1
	if v.Status == 200 {
		codec := ""
		if strings.HasPrefix(ct, "application/") {
			codec = strings.TrimPrefix(ct, "application/")
		} else {
			v.problem("content-type %q is not application/<codec>", ct)
		}
		v.RespCodec = codec
		comp := head.Get("Content-Encoding")
		if comp == "identity" {
			comp = ""
		}
		v.RespComp = comp
		checkCompressionName(v, sc, comp, "Content-Encoding")
		v.decodePayload(codec, comp, Frame{Payload: body}, comp != "", outType)
		v.OK = true
		return
	}
	if ct != "application/json" && !strings.HasPrefix(ct, "application/json;") {
		v.httpLevel(v.Status)
		return
	}
	comp := head.Get("Content-Encoding")
	if comp != "" && comp != "identity" {
		d, err := decompressBytes(comp, body)
		if err != nil {
			v.problem("error body declared %s does not inflate: %v", comp, err)
		} else {
			body = d
		}
	}
	e, ps := parseConnectErrorJSON(body)
	for _, p := range ps {
		v.problem("error body: %s", p)
	}
	if e == nil {
		e = &ErrSpec{Code: codeForHTTPStatus(v.Status)}
	}
	v.Err = e
}

func parseREST(v *ClientView, sc *Scenario, enc *encodedRequest, outType string, head http.Header, body []byte, trailers http.Header) {
	ct := head.Get("Content-Type")
	v.Headers = appHeaders(head, "")
	for k := range trailers {
		if strings.HasPrefix(k, "Grpc-") {
			v.problem("REST response carries HTTP trailer %s=%q", k, trailers[k])
		}
	}
	for k := range head {
		if strings.HasPrefix(k, "Grpc-") || strings.HasPrefix(k, "Connect-") {
			v.problem("REST response carries control header %s=%q", k, head[k])
		}
	}
	v.Ends = 1
	comp := head.Get("Content-Encoding")
	if comp == "identity" {
		comp = ""
	}
	v.RespComp = comp
	checkCompressionName(v, sc, comp, "Content-Encoding")
	if v.Status/100 == 2 {
		v.OK = true
		p := body
		v.WireSizes = append(v.WireSizes, len(p))
		if comp != "" {
			d, err := decompressBytes(comp, body)
			if err != nil {
				v.problem("body declared %s does not inflate: %v", comp, err)
				return
			}
			p = d
		}
		v.Payloads = append(v.Payloads, p)
		if outType == "" || enc.Rule == nil {
			return
		}
		out := newMessage(outType)
		sub, fd, isBody, err := expectedRESTResponseField(*enc.Rule, out)
		if err != nil {
			v.problem("harness: %v", err)
			return
		}
		switch {
		case isBody:
			// raw bytes with their own content type; sub may be a nested message
			target := out.ProtoReflect()
			if enc.Rule.ResponseBody != "" && enc.Rule.ResponseBody != "*" {
				f := target.Descriptor().Fields().ByName(protoName(enc.Rule.ResponseBody))
				target = target.Mutable(f).Message()
			}
			setHTTPBody(target, ct, p)
			v.Msgs = append(v.Msgs, out)
		case fd == nil:
			if ct != "application/json" {
				v.problem("content-type %q is not application/json", ct)
			}
			_ = sub
			target := out
			if enc.Rule.ResponseBody != "" && enc.Rule.ResponseBody != "*" {
				f := out.ProtoReflect().Descriptor().Fields().ByName(protoName(enc.Rule.ResponseBody))
				target = out.ProtoReflect().Mutable(f).Message().Interface()
			}
			if err := jsonStrictUnmarshal(p, target); err != nil {
				v.problem("body does not decode as JSON %s: %v", target.ProtoReflect().Descriptor().FullName(), err)
				v.Msgs = append(v.Msgs, nil)
				return
			}
			v.Msgs = append(v.Msgs, out)
		default:
			if ct != "application/json" {
				v.problem("content-type %q is not application/json", ct)
			}
			k, _ := json.Marshal(fd.JSONName())
			wrapped := append(append(append([]byte("{"), k...), ':'), p...)
			wrapped = append(wrapped, '}')
			if err := jsonStrictUnmarshal(wrapped, out); err != nil {
				v.problem("body does not decode as JSON field %s: %v", fd.Name(), err)
				v.Msgs = append(v.Msgs, nil)
				return
			}
			v.Msgs = append(v.Msgs, out)
		}
		return
	}
	if ct != "application/json" {
		v.httpLevel(v.Status)
		return
	}
	if comp != "" {
		d, err := decompressBytes(comp, body)
		if err != nil {
			v.problem("error body declared %s does not inflate: %v", comp, err)
		} else {
			body = d
		}
	}
	e, ps := parseRESTErrorJSON(body)
	if e == nil {
		// not a Status JSON: treat as HTTP-level
		_ = ps
		v.httpLevel(v.Status)
		return
	}
	if e.Code == 0 {
		v.problem("REST error body carries code 0 with HTTP status %d", v.Status)
	}
	v.Err = e
}

var _ = io.EOF
