package verifbench

import (
	"fmt"
	"net/http"
	"sort"
	"strings"
	"testing"

	"pgregory.net/rapid"
)

// C05 - application headers and trailers survive transcoding in both directions.

const ruleC05 = "rapid draws header/trailer sets: names = random RFC 7230 tokens in random case (excluding protocol-reserved prefixes grpc-, connect-, trailer-, content-, hop-by-hop and net/http-managed names), 0..3 values each from visible ASCII with inner spaces and commas, '-bin' names with padded/unpadded base64 values, repeated keys, names used both as header and trailer; both trailer declaration styles; OK, error and trailers-only outcomes; all client forms x target configs. Oracle: ordered multi-value equality per canonical name between what one side set and what the other side observed, trailers in the position the client protocol defines, and no protocol status key inside application metadata. Non-trivial = at least one multi-valued or -bin key crossed a protocol boundary; distinct by hash(client triple, backend triple, outcome kind, metadata)."

func init() { registerScenarioProp("C05", ruleC05, checkC05) }

func TestC05(t *testing.T) {
	rapid.Check(t, func(t *rapid.T) {
		o := genOpts{maxBlob: 8, backendKinds: []string{"ok", "ok", "error", "trailers_only"}, noText: true}
		sc := genScenario(t, o)
		sc.Client.Headers = genMeta(t, "req_meta", 4)
		sc.Backend.Headers = genMeta(t, "resp_meta", 3)
		sc.Backend.Trailers = genMeta(t, "trailer_meta", 3)
		if rapid.IntRange(0, 3).Draw(t, "same_name_both") == 0 && len(sc.Backend.Headers) > 0 {
			// only with http.TrailerPrefix: with a pre-announced key net/http itself cannot tell
			// the header value from the trailer value of the same name
			sc.Backend.Trailers = append(sc.Backend.Trailers, KV{sc.Backend.Headers[0].K, "trailer-side-value"})
			sc.Backend.TrailerStyle = "prefixed"
		}
		hm := metaMap(sc.Backend.Headers)
		for k := range metaMap(sc.Backend.Trailers) {
			if _, dup := hm[k]; dup {
				sc.Backend.TrailerStyle = "prefixed"
			}
		}
		judge(t, "C05", sc, checkC05(sc))
	})
}

var metaWords = []string{"x", "app", "trace", "id", "user", "agent", "auth", "token", "custom", "meta", "data", "key", "z9", "a1"}

func genMetaName(t *rapid.T, label string) string {
	n := rapid.IntRange(1, 3).Draw(t, label+"_parts")
	parts := make([]string, n)
	for i := range parts {
		w := rapid.SampledFrom(metaWords).Draw(t, label+"_w")
		switch rapid.IntRange(0, 2).Draw(t, label+"_case") {
		case 0:
			w = strings.ToUpper(w)
		case 1:
			w = strings.ToUpper(w[:1]) + w[1:]
		}
		parts[i] = w
	}
	name := "X-" + strings.Join(parts, "-")
	if rapid.IntRange(0, 3).Draw(t, label+"_bin") == 0 {
		name += "-Bin"
	}
	return name
}

func genMeta(t *rapid.T, label string, max int) []KV {
	n := rapid.IntRange(0, max).Draw(t, label+"_n")
	var out []KV
	for i := 0; i < n; i++ {
		name := genMetaName(t, label)
		nv := rapid.IntRange(1, 3).Draw(t, label+"_nv")
		for j := 0; j < nv; j++ {
			var v string
			if strings.HasSuffix(strings.ToLower(name), "-bin") {
				v = rapid.SampledFrom([]string{"AAEC", "3q2+7w", "3q2+7w==", "////", "YQ", "YQ==", "aGVsbG8gd29ybGQ"}).Draw(t, label+"_bv")
			} else {
				v = rapid.SampledFrom([]string{"v", "two words", "a, b", "=?x", "1234567890", "semi;colon=1", `"quoted"`, "%41%zz", "a=b&c=d", "UPPER lower", "tilde~!*'()", "x", "{json:1}", "back\\slash", "trailing.dot."}).Draw(t, label+"_v")
			}
			out = append(out, KV{name, v})
		}
	}
	return out
}

func metaMap(kvs []KV) http.Header {
	h := http.Header{}
	for _, kv := range kvs {
		h.Add(kv.K, kv.V)
	}
	return h
}

var statusKeys = []string{"Grpc-Status", "Grpc-Message", "Grpc-Status-Details-Bin", "Grpc-Encoding", "Grpc-Accept-Encoding", "Connect-Content-Encoding",
	"Connect-Accept-Encoding", "Connect-Timeout-Ms", "Grpc-Timeout", "Content-Encoding"}

func headerDiff(what string, want, got http.Header, exact bool) []string {
	var out []string
	keys := map[string]bool{}
	for k := range want {
		keys[k] = true
	}
	if exact {
		for k := range got {
			keys[k] = true
		}
	}
	ks := make([]string, 0, len(keys))
	for k := range keys {
		ks = append(ks, k)
	}
	sort.Strings(ks)
	for _, k := range ks {
		w, g := want[k], got[k]
		if len(w) != len(g) || strings.Join(w, "\x00") != strings.Join(g, "\x00") {
			out = append(out, fmt.Sprintf("%s %s: set %q, observed %q", what, k, w, g))
		}
	}
	return out
}

func checkC05(sc *Scenario) *CheckResult {
	res := &CheckResult{}
	out := runScenario(sc)
	if out.BuildErr != "" || out.ConfigErr != "" {
		res.Skipped = true
		return res
	}
	if panicViolation(res, out) {
		return res
	}
	cv := out.Client
	view := out.Backend
	c := &sc.Client
	b := &sc.Backend
	ct := clientTriple(c, out.Sent)
	bt := view.triple()
	res.class("form=%s target=%s kind=%s outcome=%s", c.Form, strings.SplitN(bt, "+", 2)[0], b.Kind, cv.outcome())
	if view == nil {
		res.class("not_invoked")
		return res
	}
	multi := false
	for _, set := range [][]KV{c.Headers, b.Headers, b.Trailers} {
		m := metaMap(set)
		for k, v := range m {
			if len(v) > 1 || strings.HasSuffix(k, "-Bin") {
				multi = true
			}
		}
	}
	res.NonTrivial = ct != bt && multi
	res.Key = fmt.Sprintf("%s|%s|%s|%v|%v|%v", ct, bt, b.Kind, c.Headers, b.Headers, b.Trailers)
	res.Sample = map[string]any{"client": ct, "backend": bt, "kind": b.Kind, "request_headers": c.Headers, "response_headers": b.Headers, "response_trailers": b.Trailers,
		"client_saw_headers": headerString(cv.Headers), "client_saw_trailers": headerString(cv.Trailers), "trailer_style": b.TrailerStyle}
	// request direction
	wantReq := metaMap(c.Headers)
	for _, d := range headerDiff("request header", wantReq, view.Header, false) {
		res.violate("request_header", "c05:request", "%s", d)
	}
	if requestFailed(view, out) {
		res.class("request_failed")
		return res
	}
	if cv.HTTPLevel {
		return res
	}
	// response direction
	wantH := metaMap(b.Headers)
	wantT := metaMap(b.Trailers)
	if view.Protocol == ProtoREST {
		wantT = http.Header{} // the REST backend script cannot send trailers
	}
	gotH, gotT := cv.Headers, cv.Trailers
	pos := "position"
	if ct == bt {
		pos = "passthrough"
	}
	// trailers-only (or any error for protocols whose end is in the headers): metadata may
	// legitimately sit in either position; the union is compared
	union := b.Kind == "trailers_only" || (b.Kind == "error" && len(b.Msgs) == 0) || c.Form == FormREST
	if c.Form == FormREST {
		// REST carries no trailers: only headers are asserted
		// (a trailers-only backend script places its trailer metadata among the headers itself)
		for k, w := range wantH {
			if !isSubsequence(w, gotH[k]) {
				res.violate("response_header", "c05:response_header", "response header %s: set %q, observed %q (%s)", k, w, gotH[k], pos)
			}
		}
	} else if union {
		w := http.Header{}
		g := http.Header{}
		for k, v := range wantH {
			w[k] = append(w[k], v...)
		}
		for k, v := range wantT {
			w[k] = append(w[k], v...)
		}
		for k, v := range gotH {
			g[k] = append(g[k], v...)
		}
		for k, v := range gotT {
			g[k] = append(g[k], v...)
		}
		for _, d := range headerDiff("response metadata (headers+trailers)", w, g, true) {
			res.violate("response_metadata", "c05:response_union", "%s (%s)", d, pos)
		}
	} else {
		for _, d := range headerDiff("response header", wantH, gotH, true) {
			res.violate("response_header", "c05:response_header", "%s (%s)", d, pos)
		}
		for _, d := range headerDiff("response trailer", wantT, gotT, true) {
			res.violate("response_trailer", "c05:response_trailer", "%s (%s, style %s)", d, pos, b.TrailerStyle)
		}
	}
	// no protocol status key inside application metadata
	for _, k := range statusKeys {
		if v, ok := cv.Trailers[k]; ok {
			res.violate("status_leak", "c05:leak", "protocol key %s=%q inside the client's application trailers", k, v)
		}
	}
	for k := range cv.Headers {
		if strings.HasPrefix(k, "Grpc-") || strings.HasPrefix(k, "Connect-") {
			res.violate("status_leak", "c05:leak", "protocol key %s=%q inside the client's application headers", k, cv.Headers[k])
		}
	}
	return res
}

func isSubsequence(want, got []string) bool {
	i := 0
	for _, g := range got {
		if i < len(want) && g == want[i] {
			i++
		}
	}
	return i == len(want)
}
