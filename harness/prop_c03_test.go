package verifbench

import (
	"fmt"
	"strings"
	"testing"

	"google.golang.org/protobuf/proto"
	"google.golang.org/protobuf/reflect/protoreflect"
	"pgregory.net/rapid"
)

// C03 - the client gets a valid response in its own protocol with exactly one outcome.

const ruleC03 = "rapid draws compliant backend scripts (OK with k messages; error after k messages; trailers-only; bare HTTP status with arbitrary body; mixed per-frame compression; declared Content-Length or none; both trailer styles) and client requests that make the transcoder itself fail at each stage (unknown codec/compression, bad timeout, bad envelope flag, cut body, undecodable message, over the size limit, backend replying in the wrong codec). Rejected requests may meet a full-duplex handler that has already written its answer (or its first frame) when it reads the request, and carries on; trailing metadata may exceed the message limit; a third of the handlers put the response headers of their own protocol (content type, encodings) into the header map before they read the request, as connect-go and grpc-go do. Oracle: strict per-form validator of status, content-type, compression headers vs flags vs bytes, envelopes, Content-Length, and exactly one terminal disposition in the place the client protocol defines. Non-trivial = the response was produced by a conversion or by a transcoder-generated error; distinct by hash(client form, backend triple, response kind, frame flags, content-length mode, reject class)."

func init() { registerScenarioProp("C03", ruleC03, checkC03) }

func TestC03(t *testing.T) {
	rapid.Check(t, func(t *rapid.T) {
		o := genOpts{segmentation: rapid.IntRange(0, 3).Draw(t, "use_segmentation") == 0, maxBlob: 24,
			backendKinds: []string{"ok", "ok", "ok", "error", "error", "trailers_only", "http_status"}}
		sc := genScenario(t, o)
		if rapid.IntRange(0, 3).Draw(t, "make_reject") == 0 {
			sc.Note = genRejection(t, sc)
			if (sc.Note == "mid:bad_flag" || sc.Note == "mid:garbage_payload" || sc.Note == "mid:over_limit") && formEnveloped(sc.Client.Form) && rapid.IntRange(0, 1).Draw(t, "duplex_backend") == 0 {
				// a streaming handler that has written its whole answer or its first frame (complete frames only)
				// before it reads the request the transcoder then rejects, and that carries on regardless
				sc.Backend.ReadAfterWrites = 1
				sc.Backend.WriteSplits, sc.Backend.WriteChunk = nil, 0
				sc.Backend.WritePerFrame = rapid.Bool().Draw(t, "duplex_per_frame") // later frames are then written after the rejection
				sc.Note += ":duplex"
			}
		}
		judge(t, "C03", sc, checkC03(sc))
	})
}

// genRejection mutates a valid scenario so that the transcoder itself has to
// fail the RPC. It returns the class, prefixed "pre:" when the failure is one
// of the validation rejections that happen before any handler may run.
func genRejection(t *rapid.T, sc *Scenario) string {
	c := &sc.Client
	kinds := []string{"unknown_codec", "unknown_compression", "bad_timeout", "bad_flag", "cut_body", "garbage_payload", "over_limit", "over_limit", "wrong_reply_codec", "unknown_method", "wrong_http_method", "unclassifiable", "http1_grpc"}
	k := rapid.SampledFrom(kinds).Draw(t, "reject_kind")
	ctHeader := func(newCT string) { c.Override = append(c.Override, KV{"Content-Type", newCT}) }
	switch k {
	case "unknown_codec":
		switch c.Form {
		case FormConnectUnary:
			ctHeader("application/bogus")
		case FormConnectStream:
			ctHeader("application/connect+bogus")
		case FormGRPC:
			ctHeader("application/grpc+bogus")
		case FormGRPCWeb:
			ctHeader("application/grpc-web+bogus")
		default:
			return ""
		}
		return "pre:unknown_codec"
	case "unknown_compression":
		if len(c.Msgs) == 0 {
			return ""
		}
		switch c.Form {
		case FormConnectUnary:
			c.Override = append(c.Override, KV{"Content-Encoding", "zstd"})
		case FormConnectStream:
			c.Override = append(c.Override, KV{"Connect-Content-Encoding", "zstd"})
		case FormGRPC, FormGRPCWeb:
			c.Override = append(c.Override, KV{"Grpc-Encoding", "zstd"})
		default:
			return ""
		}
		return "pre:unknown_compression"
	case "bad_timeout":
		c.Timeout = rapid.SampledFrom([]string{"abc", "12x", "-5", "1 S", "999999999S", "999999999H", "1.5.2", "∞"}).Draw(t, "bad_timeout")
		if c.Timeout == "∞" {
			c.Timeout = "xx"
		}
		if c.Form == FormREST && c.Timeout == "-5" {
			return "pre:bad_timeout"
		}
		return "pre:bad_timeout"
	case "bad_flag":
		if !formEnveloped(c.Form) || len(c.Msgs) == 0 {
			return ""
		}
		c.Fault = &Fault{Kind: FaultFlag, At: rapid.IntRange(0, 3).Draw(t, "fault_at"), Val: rapid.SampledFrom([]int{2, 3, 4, 0x80, 0x81, 0xff, 9}).Draw(t, "fault_flag")}
		return "mid:bad_flag"
	case "cut_body":
		if !formEnveloped(c.Form) || len(c.Msgs) == 0 {
			return ""
		}
		c.Fault = &Fault{Kind: FaultCut, At: rapid.IntRange(1, 400).Draw(t, "fault_at")}
		return "mid:cut_body"
	case "garbage_payload":
		if len(c.Msgs) == 0 || c.Form == FormConnectGet || c.Form == FormREST {
			return ""
		}
		if len(c.Msgs[0]) == 0 && (c.Codec == CodecProto || c.Codec == CodecText) && (c.Compression == "" || (len(c.MsgRaw) > 0 && c.MsgRaw[0])) {
			return ""
		}
		c.Fault = &Fault{Kind: FaultGarbage, At: rapid.IntRange(0, 3).Draw(t, "fault_at")}
		return "mid:garbage_payload"
	case "over_limit":
		// limits below a few hundred bytes cannot even hold the end-of-stream frame of an error
		sc.Config.MaxMsg = uint32(rapid.IntRange(512, 1024).Draw(t, "small_limit"))
		inflate := func(list [][]byte, typeName string) bool {
			if len(list) == 0 {
				return false
			}
			m := newMessage(typeName)
			if proto.Unmarshal(list[0], m) != nil {
				return false
			}
			fd := m.ProtoReflect().Descriptor().Fields().ByName("string_value")
			if fd == nil {
				fd = m.ProtoReflect().Descriptor().Fields().ByName("note")
			}
			if fd == nil {
				fd = m.ProtoReflect().Descriptor().Fields().ByName("name")
			}
			if fd == nil {
				return false
			}
			m.ProtoReflect().Set(fd, protoreflect.ValueOfString(strings.Repeat("big/", 1000)))
			list[0] = mustMarshal(m)
			return true
		}
		mi := lookupMethod(c.service(), c.Method)
		ok := false
		switch rapid.IntRange(0, 2).Draw(t, "inflate_what") {
		case 0:
			ok = inflate(c.Msgs, mi.In)
		case 1:
			ok = inflate(sc.Backend.Msgs, mi.Out)
		default:
			// trailing metadata larger than the limit: whatever the client protocol does with it, the
			// RPC must still end with exactly one terminal disposition
			sc.Backend.Trailers = append(sc.Backend.Trailers, KV{"X-Big", strings.Repeat("meta ", 400)})
			fixTrailerStyle(&sc.Backend)
			ok = true
		}
		if !ok {
			sc.Config.MaxMsg = 0
			return ""
		}
		return "mid:over_limit"
	case "wrong_reply_codec":
		sc.Backend.Override = append(sc.Backend.Override, KV{"Content-Type", rapid.SampledFrom([]string{"text/plain", "application/bogus", "application/grpc+nope", "application/connect+nope"}).Draw(t, "wrong_ct")})
		return "mid:wrong_reply_codec"
	case "unknown_method":
		if c.Form == FormREST {
			c.TargetOverride = "/v1/nothing/here"
		} else {
			c.TargetOverride = "/" + benchService + "/Nope"
		}
		return "pre:unknown_method"
	case "wrong_http_method":
		return "" // built by the dedicated generators of C18/C19
	case "unclassifiable":
		if c.Form == FormREST || c.Form == FormConnectGet {
			return ""
		}
		c.Override = append(c.Override, KV{"Content-Type", ""})
		return "pre:unclassifiable"
	case "http1_grpc":
		if c.Form != FormGRPC {
			return ""
		}
		c.HTTP2 = false
		return "pre:http1_grpc"
	}
	return ""
}

func respFeatureSig(sc *Scenario, view *BackendView) string {
	return "c03:" + featureSig(sc, view, "response")
}

// clientErrorKnown: HTTP-level answers are legitimate only for the validation
// rejections that precede dispatch.
func checkC03(sc *Scenario) *CheckResult {
	res := &CheckResult{}
	out := runScenario(sc)
	if out.BuildErr != "" || out.ConfigErr != "" {
		res.Skipped = true
		return res
	}
	if panicViolation(res, out) {
		return res
	}
	cv := out.Client
	view := out.Backend
	c := &sc.Client
	b := &sc.Backend
	ct := clientTriple(c, out.Sent)
	bt := view.triple()
	kind := b.Kind
	if view == nil {
		kind = "rejected"
	}
	res.class("form=%s kind=%s outcome=%s", c.Form, kind, cv.outcome())
	if sc.Note != "" {
		res.class("reject=%s outcome=%s", sc.Note, cv.outcome())
	}
	res.Key = fmt.Sprintf("%s|%s|%s|%v|%v|%v|%s|%s", ct, bt, kind, b.MsgRaw, b.DeclareCL, b.TrailerStyle, sc.Note, cv.outcome())
	res.NonTrivial = (view != nil && ct != bt) || (view == nil) || sc.Note != ""
	res.Sample = map[string]any{"client": ct, "backend": bt, "kind": kind, "reject": sc.Note, "status": cv.Status,
		"resp_headers": headerString(out.Rec.Head), "trailers": headerString(out.Trailers), "body_len": out.Rec.Body.Len(), "outcome": cv.outcome()}
	sig := respFeatureSig(sc, view)
	if sc.Backend.Fault != nil {
		res.Skipped = true
		return res
	}
	if view != nil && ct == bt && (b.Kind == "http_status" || len(b.Override) > 0) {
		// pass-through: a non-compliant backend answer is forwarded untouched (C13)
		res.class("passthrough_noncompliant_backend")
		return res
	}
	// A backend that answers with a bare 2xx status and a body that is no message of its own protocol
	// (e.g. 204 with nothing) is not one of the compliant behaviours the property quantifies over; on
	// a path that does not decode payloads (same codec on both legs) the transcoder cannot know, and
	// the undecodable payload is the backend's doing (same rule as C09: garbage is never required to
	// become valid, only never to be reported decoded). Framing and status rules still apply.
	garbageIn := view != nil && b.Kind == "http_status" && b.HTTPStatus/100 == 2 && view.Codec == c.Codec
	for _, p := range cv.Problems {
		if garbageIn && (strings.HasPrefix(p, "body does not decode") || strings.HasPrefix(p, "payload does not decode")) {
			res.class("undecodable_backend_payload_forwarded")
			continue
		}
		res.violate("invalid_response", sig, "response is not valid for a %s client: %s", c.Form, p)
	}
	if cv.Incomplete != "" {
		res.violate("truncated_response", sig, "response body %s", cv.Incomplete)
	}
	if !cv.HTTPLevel && cv.Ends != 1 {
		res.violate("disposition_count", sig, "%d terminal dispositions", cv.Ends)
	}
	if cv.HTTPLevel {
		if view != nil {
			res.violate("http_level_after_dispatch", "c03:http_level", "handler ran, yet the %s client got a bare HTTP %d (content-type %q) outside its protocol", c.Form, cv.Status, cv.ContentType)
		} else if !strings.HasPrefix(sc.Note, "pre:") && !restTargetUnroutable(sc) {
			res.violate("http_level_unexpected", "c03:http_level", "valid %s request was answered with a bare HTTP %d (content-type %q), note=%q", c.Form, cv.Status, cv.ContentType, sc.Note)
		}
		return res
	}
	// codec / compression conventions of the client's own request
	if cv.RespCodec != "" && cv.RespCodec != c.Codec && !(cv.Err != nil && !formEnveloped(c.Form)) && !httpBodyResponse(sc, out) {
		res.violate("response_codec", "c03:codec", "client asked with codec %q, response content-type says %q (%s)", c.Codec, cv.RespCodec, cv.ContentType)
	}
	if cv.RespCodec == "" && formEnveloped(c.Form) {
		res.violate("response_codec", "c03:codec", "response content-type %q names no codec", cv.ContentType)
	}
	if cv.RespComp != "" && !contains(c.Accept, cv.RespComp) && cv.RespComp != c.Compression {
		res.violate("response_compression", "c03:compression", "response uses compression %q which the client neither accepts (%v) nor sent", cv.RespComp, c.Accept)
	}
	// status prescribed by the protocol
	switch c.Form {
	case FormConnectUnary, FormConnectGet, FormREST:
		want := 200
		if cv.Err != nil {
			want = httpStatusForCode[cv.Err.Code]
			if want == 0 {
				want = -1 // out-of-range code: any server error class (C04)
			}
		}
		if want > 0 && cv.Status != want {
			res.violate("status", "c03:status", "outcome %s must use HTTP status %d, got %d", cv.outcome(), want, cv.Status)
		}
	default:
		if cv.Status != 200 {
			res.violate("status", "c03:status", "%s responses use HTTP 200, got %d", c.Form, cv.Status)
		}
	}
	return res
}

// restTargetUnroutable: the service only offers REST among protocols the
// client does not speak and the method has no binding: 404 is the documented answer.
func restTargetUnroutable(sc *Scenario) bool {
	if contains(sc.Config.Protocols, formProtocol(sc.Client.Form)) {
		return false
	}
	if !contains(sc.Config.Protocols, ProtoREST) {
		return false
	}
	return len(bindingsFor(sc, sc.Client.service(), sc.Client.Method)) == 0
}

func httpBodyResponse(sc *Scenario, out *Outcome) bool {
	if out.Sent == nil || out.Sent.Rule == nil || out.Sent.MI == nil {
		return false
	}
	_, _, isBody, err := expectedRESTResponseField(*out.Sent.Rule, newMessage(out.Sent.MI.Out))
	return err == nil && isBody
}
