package verifbench

import (
	"encoding/json"
	"fmt"
	"net/http"
	"strings"
	"sync"

	"connectrpc.com/vanguard"
	"google.golang.org/genproto/googleapis/api/annotations"
	"google.golang.org/protobuf/proto"
	"google.golang.org/protobuf/reflect/protodesc"
	"google.golang.org/protobuf/reflect/protoreflect"
	"google.golang.org/protobuf/reflect/protoregistry"
	"google.golang.org/protobuf/types/descriptorpb"
	"google.golang.org/protobuf/types/dynamicpb"
	"pgregory.net/rapid"
)

// C20 - behaviour depends on the schema's content, not on how it was loaded.

const ruleC20 = "rapid draws scenarios against the repository's LibraryService and ContentService (all client forms incl. REST bindings with path variables, body and response_body selectors, HttpBody up/downloads; target protocol / codec / compression configurations; schema-driven messages; OK and error backends) and runs each against a reference Transcoder built with NewService (generated code) and against a variant that differs ONLY in how the schema is supplied: (a) NewServiceWithSchema with a fresh protodesc copy of the file, (b) the same with the google.api.http options re-parsed as dynamically typed extensions, (c) a type resolver that knows none of the types (dynamic fallback), (d) dynamic descriptors with the generated types as resolver, (e) a service descriptor wrapper without parent file, (f) a newer revision of the files (every message gained a field) loaded under the SAME path as the linked-in generated files, compared with the same revision loaded under a path the global registry does not know, with messages that carry the added field, (g) a reload of the files with moved google.api.http paths and dynamically typed options (after the first revision was served by the same process), compared with the same reload with statically typed options, REST requests going to the moved paths. Error details carry type URLs with several prefixes. Oracle (differential): NewTranscoder succeeds for every variant, and client status, outcome, messages, headers, trailers and the backend-observed request (protocol, codec, compression, request line, messages) are identical to the reference. Non-trivial = the scenario exercises a REST binding or a JSON re-encode; distinct by hash(variant, scenario)."

const (
	librarySvc = "vanguard.test.v1.LibraryService"
	contentSvc = "vanguard.test.v1.ContentService"
)

type schemaCase struct {
	Variant string   `json:"variant"`
	Sc      Scenario `json:"scenario"`
}

// ---- schema variants ----------------------------------------------------------------

type emptyResolver struct{}

func (emptyResolver) FindMessageByName(protoreflect.FullName) (protoreflect.MessageType, error) {
	return nil, protoregistry.NotFound
}
func (emptyResolver) FindMessageByURL(string) (protoreflect.MessageType, error) {
	return nil, protoregistry.NotFound
}
func (emptyResolver) FindExtensionByName(protoreflect.FullName) (protoreflect.ExtensionType, error) {
	return nil, protoregistry.NotFound
}
func (emptyResolver) FindExtensionByNumber(protoreflect.FullName, protoreflect.FieldNumber) (protoreflect.ExtensionType, error) {
	return nil, protoregistry.NotFound
}

type noParentService struct{ protoreflect.ServiceDescriptor }

func (noParentService) ParentFile() protoreflect.FileDescriptor { return nil }

var (
	variantOnce  sync.Once
	copiedFiles  *protoregistry.Files // fresh protodesc copies of library.proto / content.proto (+deps from GlobalFiles)
	dynOptFiles  *protoregistry.Files // copies whose http options are dynamically typed
	variantError error
)

func fileSetFor(paths ...string) *descriptorpb.FileDescriptorSet {
	set := &descriptorpb.FileDescriptorSet{}
	seen := map[string]bool{}
	var add func(fd protoreflect.FileDescriptor)
	add = func(fd protoreflect.FileDescriptor) {
		if seen[fd.Path()] {
			return
		}
		seen[fd.Path()] = true
		imps := fd.Imports()
		for i := 0; i < imps.Len(); i++ {
			add(imps.Get(i).FileDescriptor)
		}
		set.File = append(set.File, protodesc.ToFileDescriptorProto(fd))
	}
	for _, p := range paths {
		fd, err := protoregistry.GlobalFiles.FindFileByPath(p)
		if err != nil {
			panic(err)
		}
		add(fd)
	}
	return set
}

func buildVariants() {
	variantOnce.Do(func() {
		// (a) fresh copies of only the two service files, resolved against the global registry
		copiedFiles = &protoregistry.Files{}
		for _, p := range []string{"vanguard/test/v1/library.proto", "vanguard/test/v1/content.proto"} {
			orig, err := protoregistry.GlobalFiles.FindFileByPath(p)
			if err != nil {
				variantError = err
				return
			}
			fd, err := protodesc.NewFile(protodesc.ToFileDescriptorProto(orig), protoregistry.GlobalFiles)
			if err != nil {
				variantError = err
				return
			}
			if err := copiedFiles.RegisterFile(fd); err != nil {
				variantError = err
				return
			}
		}
		// (b) everything (incl. google/api/*.proto and descriptor.proto) rebuilt from a serialized
		// descriptor set, options re-parsed with dynamic extension types
		set := fileSetFor("vanguard/test/v1/library.proto", "vanguard/test/v1/content.proto")
		raw, err := proto.Marshal(set)
		if err != nil {
			variantError = err
			return
		}
		plain, err := protodesc.NewFiles(set)
		if err != nil {
			variantError = err
			return
		}
		var dynSet descriptorpb.FileDescriptorSet
		if err := (proto.UnmarshalOptions{Resolver: dynamicpb.NewTypes(plain)}).Unmarshal(raw, &dynSet); err != nil {
			variantError = err
			return
		}
		dynOptFiles, err = protodesc.NewFiles(&dynSet)
		if err != nil {
			variantError = err
			return
		}
		// (g) a reload of the same files with changed google.api.http rules (every path moves from
		// /v1/... to /v9/..., /v2/... to /v8/...): once with statically typed options (the reference)
		// and once with dynamically typed ones
		set2 := fileSetFor("vanguard/test/v1/library.proto", "vanguard/test/v1/content.proto")
		for _, f := range set2.File {
			for _, sv := range f.GetService() {
				for _, m := range sv.GetMethod() {
					if m.GetOptions() != nil && proto.HasExtension(m.GetOptions(), annotations.E_Http) {
						rule := proto.Clone(proto.GetExtension(m.GetOptions(), annotations.E_Http).(*annotations.HttpRule)).(*annotations.HttpRule)
						movedRule(rule)
						for _, a := range rule.GetAdditionalBindings() {
							movedRule(a)
						}
						proto.SetExtension(m.Options, annotations.E_Http, rule)
					}
				}
			}
		}
		reloadedStatic, err = protodesc.NewFiles(set2)
		if err != nil {
			variantError = err
			return
		}
		raw2, err := proto.Marshal(set2)
		if err != nil {
			variantError = err
			return
		}
		var dynSet2 descriptorpb.FileDescriptorSet
		if err := (proto.UnmarshalOptions{Resolver: dynamicpb.NewTypes(reloadedStatic)}).Unmarshal(raw2, &dynSet2); err != nil {
			variantError = err
			return
		}
		reloadedDynamic, err = protodesc.NewFiles(&dynSet2)
		if err != nil {
			variantError = err
			return
		}
	})
}

var reloadedStatic, reloadedDynamic *protoregistry.Files

func movedPath(p string) string {
	switch {
	case strings.HasPrefix(p, "/v1/"):
		return "/v9/" + p[4:]
	case strings.HasPrefix(p, "/v2/"):
		return "/v8/" + p[4:]
	case p == "":
		return p
	}
	return "/moved" + p
}

func movedRule(r *annotations.HttpRule) {
	switch p := r.GetPattern().(type) {
	case *annotations.HttpRule_Get:
		p.Get = movedPath(p.Get)
	case *annotations.HttpRule_Put:
		p.Put = movedPath(p.Put)
	case *annotations.HttpRule_Post:
		p.Post = movedPath(p.Post)
	case *annotations.HttpRule_Delete:
		p.Delete = movedPath(p.Delete)
	case *annotations.HttpRule_Patch:
		p.Patch = movedPath(p.Patch)
	case *annotations.HttpRule_Custom:
		p.Custom.Path = movedPath(p.Custom.GetPath())
	}
}

// movedBindings: the bindings of a method after the reload.
func movedBindings(service, method string) []RuleSpec {
	var out []RuleSpec
	for _, b := range annotationBindings(service, method) {
		b.Template = movedPath(b.Template)
		out = append(out, b)
	}
	return out
}

func serviceFrom(files *protoregistry.Files, name string) protoreflect.ServiceDescriptor {
	d, err := files.FindDescriptorByName(protoreflect.FullName(name))
	if err != nil {
		return nil
	}
	sd, _ := d.(protoreflect.ServiceDescriptor)
	return sd
}

var c20Variants = []string{"copy", "dynamic_options", "unknown_types", "dynamic_desc_generated_types", "no_parent_file", "revised_same_path", "revised_same_path", "reloaded_rules_dynamic"}

// revisedFiles: a newer revision of the two service files in which every top-level message gained
// a field (verif_extra = 99). With samePath the files keep the path of the linked-in generated
// files, otherwise they are renamed to a path the global registry has never seen.
func revisedFiles(samePath bool) (*protoregistry.Files, error) {
	files := &protoregistry.Files{}
	for _, p := range []string{"vanguard/test/v1/library.proto", "vanguard/test/v1/content.proto"} {
		orig, err := protoregistry.GlobalFiles.FindFileByPath(p)
		if err != nil {
			return nil, err
		}
		fdp := protodesc.ToFileDescriptorProto(orig)
		for _, msg := range fdp.GetMessageType() {
			msg.Field = append(msg.Field, &descriptorpb.FieldDescriptorProto{
				Name: proto.String("verif_extra"), JsonName: proto.String("verifExtra"), Number: proto.Int32(99),
				Type:  descriptorpb.FieldDescriptorProto_TYPE_STRING.Enum(),
				Label: descriptorpb.FieldDescriptorProto_LABEL_OPTIONAL.Enum(),
			})
		}
		if !samePath {
			fdp.Name = proto.String("verif/revised/" + p)
		}
		fd, err := protodesc.NewFile(fdp, protoregistry.GlobalFiles)
		if err != nil {
			return nil, err
		}
		if err := files.RegisterFile(fd); err != nil {
			return nil, err
		}
	}
	return files, nil
}

var (
	revisedOnce             sync.Once
	revisedSame, revisedOth *protoregistry.Files
	revisedErr              error
)

func revised(samePath bool) (*protoregistry.Files, error) {
	revisedOnce.Do(func() {
		revisedSame, revisedErr = revisedFiles(true)
		if revisedErr == nil {
			revisedOth, revisedErr = revisedFiles(false)
		}
	})
	if samePath {
		return revisedSame, revisedErr
	}
	return revisedOth, revisedErr
}

// revisedCanon renders payloads as seen through the revised schema: proto payloads are decoded
// into dynamic messages of the revised type and re-marshalled deterministically (vanguard's proto
// codec does not promise a field order); everything else is compared byte for byte.
func revisedCanon(typeName, codec string, payloads [][]byte) string {
	var sb strings.Builder
	for _, p := range payloads {
		if codec == CodecProto {
			files, _ := revised(false)
			var md protoreflect.MessageDescriptor
			if d, err := files.FindDescriptorByName(protoreflect.FullName(typeName)); err == nil {
				md, _ = d.(protoreflect.MessageDescriptor)
			} else if d, err := protoregistry.GlobalFiles.FindDescriptorByName(protoreflect.FullName(typeName)); err == nil {
				md, _ = d.(protoreflect.MessageDescriptor)
			}
			if md != nil {
				m := dynamicpb.NewMessage(md)
				if err := proto.Unmarshal(p, m); err == nil {
					if b, err := (proto.MarshalOptions{Deterministic: true}).Marshal(m); err == nil {
						fmt.Fprintf(&sb, "proto:%x|", b)
						continue
					}
				}
			}
		}
		fmt.Fprintf(&sb, "raw:%x|", p)
	}
	return sb.String()
}

// withExtra appends field 99 (the field only the revised schema knows) to an encoded message.
func withExtra(msg []byte, val string) []byte {
	out := append(append([]byte(nil), msg...), 0x9a, 0x06, byte(len(val)))
	return append(out, val...)
}

func buildC20(variant string, cfg Config, handler http.Handler) (*vanguard.Transcoder, error) {
	buildVariants()
	if variantError != nil {
		return nil, fmt.Errorf("harness: cannot build schema variants: %w", variantError)
	}
	so := serviceOptions(cfg)
	var svcs []*vanguard.Service
	for _, name := range []string{librarySvc, contentSvc} {
		switch variant {
		case "generated":
			svcs = append(svcs, vanguard.NewService(name, handler, so...))
		case "copy":
			svcs = append(svcs, vanguard.NewServiceWithSchema(serviceFrom(copiedFiles, name), handler, so...))
		case "dynamic_options":
			svcs = append(svcs, vanguard.NewServiceWithSchema(serviceFrom(dynOptFiles, name), handler, so...))
		case "unknown_types":
			svcs = append(svcs, vanguard.NewServiceWithSchema(serviceFrom(copiedFiles, name), handler, append(append([]vanguard.ServiceOption{}, so...), vanguard.WithTypeResolver(emptyResolver{}))...))
		case "dynamic_desc_generated_types":
			svcs = append(svcs, vanguard.NewServiceWithSchema(serviceFrom(dynOptFiles, name), handler, append(append([]vanguard.ServiceOption{}, so...), vanguard.WithTypeResolver(protoregistry.GlobalTypes))...))
		case "no_parent_file":
			svcs = append(svcs, vanguard.NewServiceWithSchema(noParentService{serviceFrom(copiedFiles, name)}, handler, so...))
		case "reloaded_rules_static":
			svcs = append(svcs, vanguard.NewServiceWithSchema(serviceFrom(reloadedStatic, name), handler, so...))
		case "reloaded_rules_dynamic":
			svcs = append(svcs, vanguard.NewServiceWithSchema(serviceFrom(reloadedDynamic, name), handler, so...))
		case "revised_same_path", "revised_other_path":
			files, err := revised(variant == "revised_same_path")
			if err != nil {
				return nil, fmt.Errorf("harness: cannot build the revised schema: %w", err)
			}
			svcs = append(svcs, vanguard.NewServiceWithSchema(serviceFrom(files, name), handler, so...))
		default:
			return nil, fmt.Errorf("unknown variant %q", variant)
		}
	}
	return vanguard.NewTranscoder(svcs, transcoderBaseOptions()...)
}

// annotationBindings derives the flat binding list of a generated method from its options.
func annotationBindings(service, method string) []RuleSpec {
	mi := lookupMethod(service, method)
	if mi == nil {
		return nil
	}
	opts, ok := mi.Desc.Options().(*descriptorpb.MethodOptions)
	if !ok || !proto.HasExtension(opts, annotations.E_Http) {
		return nil
	}
	rule, _ := proto.GetExtension(opts, annotations.E_Http).(*annotations.HttpRule)
	conv := func(r *annotations.HttpRule) RuleSpec {
		rs := RuleSpec{Selector: service + "." + method, Body: r.GetBody(), ResponseBody: r.GetResponseBody()}
		switch p := r.GetPattern().(type) {
		case *annotations.HttpRule_Get:
			rs.Method, rs.Template = "GET", p.Get
		case *annotations.HttpRule_Put:
			rs.Method, rs.Template = "PUT", p.Put
		case *annotations.HttpRule_Post:
			rs.Method, rs.Template = "POST", p.Post
		case *annotations.HttpRule_Delete:
			rs.Method, rs.Template = "DELETE", p.Delete
		case *annotations.HttpRule_Patch:
			rs.Method, rs.Template = "PATCH", p.Patch
		case *annotations.HttpRule_Custom:
			rs.Method, rs.Template, rs.Custom = p.Custom.GetKind(), p.Custom.GetPath(), true
		}
		return rs
	}
	out := []RuleSpec{conv(rule)}
	for _, a := range rule.GetAdditionalBindings() {
		out = append(out, conv(a))
	}
	return out
}

type libMethod struct {
	service, name    string
	cstream, sstream bool
	rest             bool
	noSideFx         bool
}

var libMethods = func() []libMethod {
	var out []libMethod
	for _, svc := range []string{librarySvc, contentSvc} {
		d, err := protoregistry.GlobalFiles.FindDescriptorByName(protoreflect.FullName(svc))
		if err != nil {
			continue
		}
		sd := d.(protoreflect.ServiceDescriptor)
		for i := 0; i < sd.Methods().Len(); i++ {
			md := sd.Methods().Get(i)
			mi := lookupMethod(svc, string(md.Name()))
			out = append(out, libMethod{service: svc, name: string(md.Name()), cstream: md.IsStreamingClient(), sstream: md.IsStreamingServer(),
				rest: len(annotationBindings(svc, string(md.Name()))) > 0, noSideFx: mi.NoSideFx})
		}
	}
	return out
}()

func genLibraryScenario(t *rapid.T, sc *Scenario) {
	{
		sc.Config = genConfig(t, genOpts{noText: true})
		sc.Config.ViaDefaults = false
		sc.Config.GlobalTypes = false
		form := rapid.SampledFrom([]string{FormREST, FormREST, FormConnectUnary, FormConnectGet, FormConnectStream, FormGRPC, FormGRPCWeb}).Draw(t, "form")
		var cands []libMethod
		for _, m := range libMethods {
			unary := !m.cstream && !m.sstream
			switch form {
			case FormConnectUnary:
				if !unary {
					continue
				}
			case FormConnectGet:
				if !unary || !m.noSideFx {
					continue
				}
			case FormConnectStream:
				if unary {
					continue
				}
			case FormREST:
				if !m.rest || (m.cstream && m.sstream) {
					continue
				}
			}
			cands = append(cands, m)
		}
		m := rapid.SampledFrom(cands).Draw(t, "lib_method")
		mi := lookupMethod(m.service, m.name)
		cl := &sc.Client
		cl.Form, cl.Service, cl.Method = form, m.service, m.name
		cl.HTTP2 = form == FormGRPC || (m.cstream && m.sstream) || rapid.Bool().Draw(t, "http2")
		cl.Codec = rapid.SampledFrom([]string{CodecProto, CodecJSON}).Draw(t, "codec")
		if form == FormREST {
			cl.Codec = CodecJSON
		}
		cl.Compression = rapid.SampledFrom([]string{"", "", CompGzip}).Draw(t, "compression")
		cl.Accept = append([]string(nil), rapid.SampledFrom([][]string{nil, {CompGzip}}).Draw(t, "accept")...)
		cl.JSON = JSONStyle{ProtoNames: rapid.Bool().Draw(t, "j_proto_names"), EmitUnpopulated: rapid.IntRange(0, 3).Draw(t, "j_emit") == 0}
		cl.Param = ParamStyle{ProtoNames: rapid.Bool().Draw(t, "p_proto_names")}
		n := 1
		if m.cstream && form != FormREST {
			n = rapid.IntRange(0, 3).Draw(t, "nreq")
		}
		mo := defaultMsgOpts
		mo.maxBlob = 20
		var rule *RuleSpec
		if bs := annotationBindings(m.service, m.name); len(bs) > 0 {
			cl.Binding = rapid.IntRange(0, len(bs)-1).Draw(t, "binding")
			if form == FormREST || !contains(sc.Config.Protocols, formProtocol(form)) {
				r := bs[cl.Binding]
				if form != FormREST {
					r = bs[0]
				}
				rule = &r
			}
		}
		for i := 0; i < n; i++ {
			msg := genMessage(t, mi.In, "req", mo)
			if rule != nil {
				restProject(t, *rule, msg, "proj")
			}
			cl.Msgs = append(cl.Msgs, mustMarshal(msg))
		}
		cl.Headers = genHeaderKVs(t, "req_hdr", 2)
		sc.Backend = genBackend(t, cl, genOpts{maxBlob: 20, backendKinds: []string{"ok", "ok", "ok", "error"}})
		if sc.Backend.Err != nil {
			for i := range sc.Backend.Err.Details {
				// type URLs are resolved by what follows their last slash, whatever precedes it
				sc.Backend.Err.Details[i].URLPrefix = rapid.SampledFrom([]string{"", "", "types.example.com/acme/", "example.com/", "/"}).Draw(t, "detail_url_prefix")
			}
		}
	}
}

type c20Obs struct {
	out     *Outcome
	client  string
	backend string
}

func errString(e *ErrSpec) string {
	if e == nil {
		return "-"
	}
	var ds []string
	for _, d := range e.Details {
		ds = append(ds, fmt.Sprintf("%s:%x", d.Type, d.Value))
	}
	return fmt.Sprintf("%s %q [%s]", codeName(e.Code), e.Message, strings.Join(ds, ","))
}

func canonAll(msgs []proto.Message) string {
	var sb strings.Builder
	for _, m := range msgs {
		if m == nil {
			sb.WriteString("<undecodable>|")
			continue
		}
		sb.WriteString(canon(m))
		sb.WriteString("|")
	}
	return sb.String()
}

func runC20(variant string, sc *Scenario) (c20Obs, error) {
	var ob c20Obs
	svc := http.HandlerFunc(func(w http.ResponseWriter, r *http.Request) {
		br, _ := r.Context().Value(slotKey{}).(*benchRun)
		if br == nil {
			http.Error(w, "no bench run in context", 500)
			return
		}
		br.serviceHandler().ServeHTTP(w, r)
	})
	tr, err := buildC20(variant, sc.Config, svc)
	if err != nil {
		return ob, err
	}
	out := runScenarioOn(sc, &sharedTranscoder{tr: tr})
	ob.out = out
	if out.BuildErr != "" || out.Panic != "" || out.Hang {
		return ob, nil
	}
	cv := out.Client
	ob.client = fmt.Sprintf("status=%d outcome=%s err=%s ct=%q codec=%s comp=%s msgs=%s headers=%s trailers=%s problems=%d incomplete=%q",
		cv.Status, cv.outcome(), errString(cv.Err), cv.ContentType, cv.RespCodec, cv.RespComp, canonAll(cv.Msgs), headerString(cv.Headers), headerString(cv.Trailers), len(cv.Problems), cv.Incomplete)
	// Raw payload bytes are compared only where both sides use dynamic messages (the revised pair):
	// generated and dynamic messages legitimately serialize fields in different orders.
	rawToo := strings.HasPrefix(variant, "revised_")
	if rawToo && out.Sent != nil && out.Sent.MI != nil {
		ob.client += " payloads=" + revisedCanon(out.Sent.MI.Out, cv.RespCodec, cv.Payloads)
	}
	if v := out.Backend; v != nil {
		if rawToo && v.MI != nil {
			defer func() { ob.backend += " payloads=" + revisedCanon(v.MI.In, v.Codec, v.Payloads) }()
		}
		ob.backend = fmt.Sprintf("%s %s %s?%s timeout=%q msgs=%s readerr=%q problems=%d fit=%d", v.triple(), v.Snap.Method, v.EscapedPath, v.Snap.RawQuery, v.Timeout, canonAll(v.Msgs), v.ReadErr, len(v.Problems), v.RestFit)
	} else {
		ob.backend = "not invoked"
	}
	return ob, nil
}

func checkC20(c *schemaCase) *CheckResult {
	res := &CheckResult{}
	sc := &c.Sc
	raw, _ := json.Marshal(c)
	res.Key = string(raw)
	refVariant := "generated"
	if c.Variant == "reloaded_rules_dynamic" {
		// the reference is the same reloaded schema with statically typed options; the first revision
		// (dynamically typed, original rules) has been served by this process before the reload
		refVariant = "reloaded_rules_static"
		if _, err := buildC20("dynamic_options", sc.Config, http.NotFoundHandler()); err != nil && strings.HasPrefix(err.Error(), "harness:") {
			res.violate("harness", "harness", "%s", err)
			return res
		}
	}
	if c.Variant == "revised_same_path" {
		// the revised schema has no generated counterpart: the reference is the same content loaded
		// under a file path the global registry does not know
		refVariant = "revised_other_path"
	}
	ref, err := runC20(refVariant, cloneScenario(sc))
	if err != nil {
		if strings.HasPrefix(err.Error(), "harness:") {
			res.violate("harness", "harness", "%s", err)
			return res
		}
		res.Skipped = true // the configuration itself is rejected; nothing to compare
		return res
	}
	if ref.out.BuildErr != "" {
		res.Skipped = true
		return res
	}
	got, err := runC20(c.Variant, cloneScenario(sc))
	res.class("variant=%s form=%s", c.Variant, sc.Client.Form)
	jsonInvolved := sc.Client.Codec == CodecJSON || contains(sc.Config.Codecs, CodecJSON) || contains(sc.Config.Protocols, ProtoREST)
	res.NonTrivial = sc.Client.Form == FormREST || jsonInvolved
	sample := map[string]any{"variant": c.Variant, "form": sc.Client.Form, "method": sc.Client.Service + "/" + sc.Client.Method, "config": sc.Config}
	res.Sample = sample
	if err != nil {
		res.violate("variant_rejected", "c20:rejected:"+c.Variant, "NewTranscoder rejects the schema supplied as %q although the reference registration (%s) is accepted: %s", c.Variant, refVariant, err)
		return res
	}
	if panicViolation(res, ref.out) {
		return res
	}
	if got.out.Panic != "" && !got.out.PanicScripted {
		res.violate("panic", "panic:c20:"+c.Variant, "variant %q panicked where the generated registration did not: %s", c.Variant, got.out.Panic)
		return res
	}
	if ref.out.Hang || got.out.Hang {
		res.violate("hang", "c20:hang", "ServeHTTP did not return (generated=%v variant=%v)", ref.out.Hang, got.out.Hang)
		return res
	}
	sample["outcome"] = ref.out.Client.outcome()
	sample["backend"] = ref.out.Backend.triple()
	res.class("outcome=%s", ref.out.Client.outcome())
	what := fmt.Sprintf("%s %s/%s", sc.Client.Form, sc.Client.Service, sc.Client.Method)
	if ref.client != got.client {
		res.violate("schema_dependent", "c20:client:"+c.Variant, "client-observed response with the schema supplied as %q differs from the reference registration %q (%s):\n  reference: %s\n  variant:   %s", c.Variant, refVariant, what, trimLong(ref.client), trimLong(got.client))
	}
	if ref.backend != got.backend {
		res.violate("schema_dependent", "c20:backend:"+c.Variant, "backend-observed request with the schema supplied as %q differs from the reference registration %q (%s):\n  reference: %s\n  variant:   %s", c.Variant, refVariant, what, trimLong(ref.backend), trimLong(got.backend))
	}
	return res
}

func trimLong(s string) string {
	if len(s) > 600 {
		return fmt.Sprintf("%q...", s[:600])
	}
	return fmt.Sprintf("%q", s)
}
