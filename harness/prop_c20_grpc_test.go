package verifbench

import (
	"net/http"
	"context"
	"encoding/json"
	"flag"
	"strconv"
	"fmt"
	"io"
	"sort"
	"strings"
	"sync"
	"testing"

	"connectrpc.com/vanguard"
	"connectrpc.com/vanguard/vanguardgrpc"
	"google.golang.org/grpc"
	"google.golang.org/grpc/encoding"
	_ "google.golang.org/grpc/encoding/gzip" // the server understands the compression the transcoder may pick
	"google.golang.org/grpc/metadata"
	"google.golang.org/grpc/status"
	"google.golang.org/protobuf/proto"
	"google.golang.org/protobuf/reflect/protoreflect"
	"google.golang.org/protobuf/reflect/protoregistry"
	"pgregory.net/rapid"
)

// C20, last clause: services wrapped from a gRPC server registry (vanguardgrpc.NewTranscoder)
// behave like the same services registered by name. Both transcoders front the SAME real
// grpc.Server (its http.Handler), whose generic service implementation answers from the
// scenario script and records what it received.

type grpcObs struct {
	mu    sync.Mutex
	notes []string
}

type grpcObsKey struct{}

func (o *grpcObs) note(f string, a ...any) {
	o.mu.Lock()
	o.notes = append(o.notes, fmt.Sprintf(f, a...))
	o.mu.Unlock()
}

func scriptFromCtx(ctx context.Context) (*Scenario, *grpcObs) {
	br, _ := ctx.Value(slotKey{}).(*benchRun)
	obs, _ := ctx.Value(grpcObsKey{}).(*grpcObs)
	if br == nil || obs == nil {
		return nil, nil
	}
	return br.sc, obs
}

func mdNote(ctx context.Context, obs *grpcObs) {
	md, _ := metadata.FromIncomingContext(ctx)
	var keys []string
	for k := range md {
		if strings.HasPrefix(k, "x-") {
			keys = append(keys, k)
		}
	}
	sort.Strings(keys)
	for _, k := range keys {
		obs.note("md %s=%q", k, md[k])
	}
}

func scriptedMD(kvs []KV) metadata.MD {
	md := metadata.MD{}
	for _, kv := range kvs {
		md.Append(strings.ToLower(kv.K), kv.V)
	}
	return md
}

func scriptedStatus(sc *Scenario) error {
	if sc.Backend.Kind != "error" || sc.Backend.Err == nil {
		return nil
	}
	return status.ErrorProto(sc.Backend.Err.statusProto())
}

func scriptedMsg(typeName string, raw []byte) proto.Message {
	m := newMessage(typeName)
	_ = proto.Unmarshal(raw, m)
	return m
}

func genericServiceDesc(sd protoreflect.ServiceDescriptor) *grpc.ServiceDesc {
	desc := &grpc.ServiceDesc{ServiceName: string(sd.FullName()), HandlerType: (*any)(nil), Metadata: sd.ParentFile().Path()}
	for i := 0; i < sd.Methods().Len(); i++ {
		md := sd.Methods().Get(i)
		in, out := string(md.Input().FullName()), string(md.Output().FullName())
		name := string(md.Name())
		if !md.IsStreamingClient() && !md.IsStreamingServer() {
			desc.Methods = append(desc.Methods, grpc.MethodDesc{MethodName: name, Handler: func(_ any, ctx context.Context, dec func(any) error, _ grpc.UnaryServerInterceptor) (any, error) {
				sc, obs := scriptFromCtx(ctx)
				if sc == nil {
					return nil, status.Error(13, "no script")
				}
				obs.note("call %s", name)
				mdNote(ctx, obs)
				req := newMessage(in)
				if err := dec(req); err != nil {
					obs.note("recv error: %v", status.Code(err))
					return nil, err
				}
				obs.note("recv %s", canon(req))
				_ = grpc.SetHeader(ctx, scriptedMD(sc.Backend.Headers))
				_ = grpc.SetTrailer(ctx, scriptedMD(sc.Backend.Trailers))
				if err := scriptedStatus(sc); err != nil {
					return nil, err
				}
				if len(sc.Backend.Msgs) > 0 {
					return scriptedMsg(out, sc.Backend.Msgs[0]), nil
				}
				return newMessage(out), nil
			}})
			continue
		}
		desc.Streams = append(desc.Streams, grpc.StreamDesc{StreamName: name, ClientStreams: md.IsStreamingClient(), ServerStreams: md.IsStreamingServer(),
			Handler: func(_ any, stream grpc.ServerStream) error {
				ctx := stream.Context()
				sc, obs := scriptFromCtx(ctx)
				if sc == nil {
					return status.Error(13, "no script")
				}
				obs.note("call %s", name)
				mdNote(ctx, obs)
				for {
					req := newMessage(in)
					err := stream.RecvMsg(req)
					if err == io.EOF {
						break
					}
					if err != nil {
						obs.note("recv error: %v", status.Code(err))
						return err
					}
					obs.note("recv %s", canon(req))
				}
				_ = stream.SetHeader(scriptedMD(sc.Backend.Headers))
				stream.SetTrailer(scriptedMD(sc.Backend.Trailers))
				for i, raw := range sc.Backend.Msgs {
					if !md.IsStreamingServer() && i > 0 {
						break
					}
					if err := stream.SendMsg(scriptedMsg(out, raw)); err != nil {
						obs.note("send error: %v", status.Code(err))
						return err
					}
				}
				if !md.IsStreamingServer() && len(sc.Backend.Msgs) == 0 && scriptedStatus(sc) == nil {
					if err := stream.SendMsg(newMessage(out)); err != nil {
						return err
					}
				}
				return scriptedStatus(sc)
			}})
	}
	return desc
}

var (
	grpcServerOnce sync.Once
	grpcServer     *grpc.Server
	grpcJSONOnce   sync.Once
)

func theGRPCServer() *grpc.Server {
	grpcServerOnce.Do(func() {
		grpcServer = grpc.NewServer()
		for _, name := range []string{librarySvc, contentSvc} {
			d, err := protoregistry.GlobalFiles.FindDescriptorByName(protoreflect.FullName(name))
			if err != nil {
				panic(err)
			}
			grpcServer.RegisterService(genericServiceDesc(d.(protoreflect.ServiceDescriptor)), struct{}{})
		}
	})
	return grpcServer
}

type grpcCase struct {
	RegisterJSON bool     `json:"register_json"` // a "json" gRPC codec is registered (process-wide, irreversible)
	MaxMsg       uint32   `json:"max_msg,omitempty"`
	// CallerCodecs: the caller passes WithDefaultServiceOptions(WithTargetCodecs(...)) of its own to
	// vanguardgrpc.NewTranscoder (codecs the server has); the by-name reference registers the
	// services with these codecs.
	CallerCodecs []string `json:"caller_codecs,omitempty"`
	Sc           Scenario `json:"scenario"`
}

const ruleC20grpc = " Second generator (registry clause): the same scenarios against a real grpc.Server fronted by vanguardgrpc.NewTranscoder and, as reference, by vanguard.NewTranscoder with the services registered by name with the documented options (target protocol gRPC; codecs proto plus json iff a json gRPC codec is registered, or the codec list the caller passes as a default service option of its own); the server's generic implementation answers from the script and records calls, metadata and decoded requests. Client observations and the server's record must be identical."

func init() {
	registerProp(&propDef{ID: "C20", Rule: ruleC20 + ruleC20grpc, Replay: func(raw json.RawMessage) (*CheckResult, error) {
		var probe struct {
			Variant *string `json:"variant"`
		}
		_ = json.Unmarshal(raw, &probe)
		if probe.Variant != nil {
			var c schemaCase
			if err := json.Unmarshal(raw, &c); err != nil {
				return nil, err
			}
			return checkC20(&c), nil
		}
		var c grpcCase
		if err := json.Unmarshal(raw, &c); err != nil {
			return nil, err
		}
		return checkC20grpc(&c), nil
	}})
}

// processRegistersJSON: registering a gRPC codec is process-wide and irreversible, so it is decided
// per process from the parity of the rapid seed (the driver's shards alternate).
func processRegistersJSON() bool {
	f := flag.Lookup("rapid.seed")
	if f == nil {
		return true
	}
	n, _ := strconv.ParseUint(f.Value.String(), 10, 64)
	return n%2 == 1
}

func TestC20(t *testing.T) {
	rapid.Check(t, func(t *rapid.T) {
		if rapid.IntRange(0, 3).Draw(t, "registry_clause") == 0 {
			c := &grpcCase{RegisterJSON: processRegistersJSON()}
			// No message-size limits here: a real gRPC server reads the request on its own goroutine
			// while the handler runs, so whether a request-side failure or the handler's answer
			// reaches the client first is a legitimate race, not a property of the registration route.
			genLibraryScenario(t, &c.Sc)
			c.Sc.Config = Config{}
			if rapid.IntRange(0, 2).Draw(t, "caller_codecs") == 0 {
				lists := [][]string{{CodecProto}}
				if c.RegisterJSON {
					lists = [][]string{{CodecProto}, {CodecJSON}, {CodecJSON, CodecProto}}
				}
				c.CallerCodecs = append([]string(nil), rapid.SampledFrom(lists).Draw(t, "caller_codec_list")...)
			}
			judge(t, "C20", c, checkC20grpc(c))
			return
		}
		c := &schemaCase{Variant: rapid.SampledFrom(c20Variants).Draw(t, "variant")}
		genLibraryScenario(t, &c.Sc)
		if c.Variant == "reloaded_rules_dynamic" {
			// REST requests go to the paths of the reloaded rules (other client forms cannot tell)
			if moved := movedBindings(c.Sc.Client.Service, c.Sc.Client.Method); c.Sc.Client.Form == FormREST && len(moved) > 0 {
				for i := range moved {
					moved[i].Selector = c.Sc.Client.Service + "." + c.Sc.Client.Method
				}
				c.Sc.Config.Rules = moved
				c.Sc.Client.Binding = len(annotationBindings(c.Sc.Client.Service, c.Sc.Client.Method)) + c.Sc.Client.Binding%len(moved)
			}
		}
		if c.Variant == "revised_same_path" {
			for i := range c.Sc.Client.Msgs {
				if rapid.IntRange(0, 3).Draw(t, "req_extra") > 0 {
					c.Sc.Client.Msgs[i] = withExtra(c.Sc.Client.Msgs[i], rapid.StringMatching("[a-z]{1,6}").Draw(t, "req_extra_val"))
				}
			}
			for i := range c.Sc.Backend.Msgs {
				if rapid.IntRange(0, 3).Draw(t, "resp_extra") > 0 {
					c.Sc.Backend.Msgs[i] = withExtra(c.Sc.Backend.Msgs[i], rapid.StringMatching("[a-z]{1,6}").Draw(t, "resp_extra_val"))
				}
			}
		}
		if c.Variant == "unknown_types" && c.Sc.Backend.Err != nil {
			// rendering error details as JSON needs a resolver that knows the detail's type: that is
			// the content of the resolver, not the way the schema was loaded
			c.Sc.Backend.Err.Details = nil
		}
		judge(t, "C20", c, checkC20(c))
	})
}

func runC20grpc(viaRegistry bool, c *grpcCase) (string, string, *Outcome, error) {
	srv := theGRPCServer()
	topts := transcoderBaseOptions()
	if c.MaxMsg != 0 {
		topts = append(topts, vanguard.WithDefaultServiceOptions(vanguard.WithMaxMessageBufferBytes(c.MaxMsg)))
	}
	var tr *vanguard.Transcoder
	var err error
	if viaRegistry {
		if len(c.CallerCodecs) > 0 {
			topts = append(topts, vanguard.WithDefaultServiceOptions(vanguard.WithTargetCodecs(c.CallerCodecs...)))
		}
		tr, err = vanguardgrpc.NewTranscoder(srv, topts...)
	} else {
		codecs := []string{vanguard.CodecProto}
		if encoding.GetCodec(vanguard.CodecJSON) != nil {
			codecs = append(codecs, vanguard.CodecJSON)
		}
		if len(c.CallerCodecs) > 0 {
			codecs = c.CallerCodecs
		}
		so := []vanguard.ServiceOption{vanguard.WithTargetProtocols(vanguard.ProtocolGRPC), vanguard.WithTargetCodecs(codecs...)}
		if c.MaxMsg != 0 {
			so = append(so, vanguard.WithMaxMessageBufferBytes(c.MaxMsg))
		}
		tr, err = vanguard.NewTranscoder([]*vanguard.Service{
			vanguard.NewService(librarySvc, srv, so...),
			vanguard.NewService(contentSvc, srv, so...),
		}, transcoderBaseOptions()...)
	}
	if err != nil {
		return "", "", nil, err
	}
	obs := &grpcObs{}
	out := runScenarioCtx(cloneScenario(&c.Sc), &sharedTranscoder{tr: tr}, func(ctx context.Context) context.Context {
		return context.WithValue(ctx, grpcObsKey{}, obs)
	})
	if out.BuildErr != "" || out.Panic != "" || out.Hang {
		return "", "", out, nil
	}
	cv := out.Client
	// (grpc-go merges header and trailer metadata of a trailers-only answer in map order: values of one
	// key are compared as multisets here)
	client := fmt.Sprintf("status=%d outcome=%s err=%s ct=%q codec=%s comp=%s msgs=%s headers=%s trailers=%s problems=%d incomplete=%q",
		cv.Status, cv.outcome(), errString(cv.Err), cv.ContentType, cv.RespCodec, cv.RespComp, canonAll(cv.Msgs), headerString(sortedValues(cv.Headers)), headerString(sortedValues(cv.Trailers)), len(cv.Problems), cv.Incomplete)
	obs.mu.Lock()
	server := strings.Join(obs.notes, "\n")
	obs.mu.Unlock()
	return client, server, out, nil
}

func checkC20grpc(c *grpcCase) *CheckResult {
	res := &CheckResult{}
	sc := &c.Sc
	raw, _ := json.Marshal(c)
	res.Key = string(raw)
	if c.RegisterJSON {
		grpcJSONOnce.Do(func() {
			encoding.RegisterCodec(vanguardgrpc.NewCodec(&vanguard.JSONCodec{}))
		})
	}
	jsonRegistered := encoding.GetCodec(vanguard.CodecJSON) != nil
	refClient, refServer, refOut, err := runC20grpc(false, c)
	if err != nil || refOut.BuildErr != "" {
		res.Skipped = true
		return res
	}
	gotClient, gotServer, gotOut, err := runC20grpc(true, c)
	res.class("variant=grpc_registry form=%s json_codec=%v", sc.Client.Form, jsonRegistered)
	res.NonTrivial = sc.Client.Form != FormGRPC || sc.Client.Codec != CodecProto
	sample := map[string]any{"variant": "grpc_registry", "form": sc.Client.Form, "codec": sc.Client.Codec, "method": sc.Client.Service + "/" + sc.Client.Method, "json_grpc_codec_registered": jsonRegistered}
	res.Sample = sample
	if err != nil {
		res.violate("variant_rejected", "c20:rejected:grpc_registry", "vanguardgrpc.NewTranscoder fails although registering the same services by name works: %s", err)
		return res
	}
	if panicViolation(res, refOut) {
		return res
	}
	if gotOut.Panic != "" {
		res.violate("panic", "panic:c20:grpc_registry", "vanguardgrpc transcoder panicked where by-name registration did not: %s", gotOut.Panic)
		return res
	}
	if refOut.Hang || gotOut.Hang {
		res.violate("hang", "c20:hang", "ServeHTTP did not return (by-name=%v registry=%v)", refOut.Hang, gotOut.Hang)
		return res
	}
	sample["outcome"] = refOut.Client.outcome()
	res.class("outcome=%s", refOut.Client.outcome())
	what := fmt.Sprintf("%s %s/%s", sc.Client.Form, sc.Client.Service, sc.Client.Method)
	if refClient != gotClient {
		res.violate("schema_dependent", "c20:client:grpc_registry", "client-observed response through vanguardgrpc.NewTranscoder differs from by-name registration (%s):\n  by name:  %s\n  registry: %s", what, trimLong(refClient), trimLong(gotClient))
	}
	if refServer != gotServer {
		res.violate("schema_dependent", "c20:backend:grpc_registry", "what the gRPC server received through vanguardgrpc.NewTranscoder differs from by-name registration (%s):\n  by name:  %s\n  registry: %s", what, trimLong(refServer), trimLong(gotServer))
	}
	return res
}


func sortedValues(h http.Header) http.Header {
	out := http.Header{}
	for k, v := range h {
		vs := append([]string(nil), v...)
		sort.Strings(vs)
		out[k] = vs
	}
	return out
}
