#!/usr/bin/env python3
"""usage: store_mutant.py <srcdir> <new-id> <property> <caught_by comma list> <change text> <needs text>
Copies a confirmed seeded change (patch.diff, zz_demo_test.go, README.md) to seeded/<new-id>/ and writes meta.json."""
import json, os, shutil, sys
src, nid, prop, caught, change, needs = sys.argv[1:7]
dst = os.path.join(os.path.dirname(os.path.abspath(__file__)), "seeded", nid)
os.makedirs(dst, exist_ok=True)
for f in ("patch.diff", "zz_demo_test.go", "README.md"):
    shutil.copy(os.path.join(src, f), os.path.join(dst, f))
json.dump({
    "id": nid, "property": prop, "change": change, "needs_to_manifest": needs,
    "written_by": "independent sub-agent (round 2) given only the property text and a scratch worktree",
    "confirmed": "mutverify.sh in a scratch worktree at /repo HEAD: patch applies, go build ok, existing suite passes with the patch, demo passes on the clean tree and fails with the patch",
    "checks_run": "mutrun.sh <patch> quick " + " ".join(c for c in caught.split(",") if c),
    "caught_by_quick": [c for c in caught.split(",") if c],
}, open(os.path.join(dst, "meta.json"), "w"), indent=1)
print("stored", nid)
