#!/usr/bin/env python3
"""Regenerates the 'fixed' list of known_findings.json from fixes.tsv (one entry per fix commit, under
the first property it is recorded for). Entries of this list suppress nothing."""
import json, subprocess, os
here = os.path.dirname(os.path.abspath(__file__))
kf = json.load(open(os.path.join(here, "known_findings.json")))
out = []
for line in open(os.path.join(here, "fixes.tsv")):
    line = line.rstrip("\n")
    if not line.strip():
        continue
    c, props, what = line.split("\t", 2)
    full = subprocess.run(["git", "-C", os.environ.get("VERIF_REPO", "/repo"), "rev-parse", "--short=12", c], capture_output=True, text=True).stdout.strip() or c
    out.append("fixed: property=%s %s %s" % (props.split(",")[0], full, what))
kf["fixed"] = out
json.dump(kf, open(os.path.join(here, "known_findings.json"), "w"), indent=1, ensure_ascii=False)
print(len(out), "fixed entries")
