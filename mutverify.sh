#!/bin/bash
# usage: mutverify.sh <mutant-dir> <scratch-worktree>
# Confirms: patch applies at /repo HEAD, builds, existing suite passes with it, demo fails with it and passes without it.
set -u
M="$1"; W="$2"
export GOFLAGS=-mod=mod GOPROXY=off
cd "$W" || exit 2
git checkout -q --detach "$(git -C /repo rev-parse HEAD)" 2>/dev/null; git checkout -q -- . ; rm -f zz_demo_test.go vanguardgrpc/zz_demo_test.go
if ! git apply --check "$M/patch.diff" 2>/dev/null; then echo "RESULT $M: patch does not apply at HEAD"; exit 1; fi
PKG=.
if grep -q '^package vanguardgrpc' "$M/zz_demo_test.go"; then PKG=./vanguardgrpc; fi
cp "$M/zz_demo_test.go" $PKG/zz_demo_test.go
DEMO=$(grep -o 'func Test[A-Za-z0-9_]*' $PKG/zz_demo_test.go | sed 's/func //' | tr '\n' '|' | sed 's/|$//')
go test -vet=off -count=1 -run "^($DEMO)\$" $PKG >/tmp/mv_clean.log 2>&1; CLEAN=$?
git apply "$M/patch.diff"
go build ./... >/tmp/mv_build.log 2>&1; BUILD=$?
go test -vet=off -count=1 -run "^($DEMO)\$" $PKG >/tmp/mv_mut.log 2>&1; MUT=$?
rm -f zz_demo_test.go vanguardgrpc/zz_demo_test.go
go test -vet=off -count=1 ./... >/tmp/mv_suite.log 2>&1; SUITE=$?
git checkout -q -- .
echo "RESULT $M: build=$BUILD suite_with_patch=$SUITE demo_on_clean=$CLEAN demo_with_patch=$MUT (want 0 0 0 nonzero)"
