#!/bin/bash
# usage: runall.sh [tier]   runs every registered check, prints one line each
T=${1:-quick}
for p in $(python3 -c "import sys; sys.path.insert(0,'/verif'); from props import PROPS; print(' '.join(sorted(PROPS)))"); do
  out=$(./check $p $T 2>&1); rc=$?
  echo "$p rc=$rc $(echo "$out" | grep -c KNOWN-FINDING) known, $(echo "$out" | grep -c '^note: known finding') stale | $(echo "$out" | tail -1 | cut -c1-200)"
done
