#!/usr/bin/env python3
"""Regenerates the machine-written appendices of DESIGN.md (between the BEGIN/END markers) from
seeded/*/meta.json, fixes.tsv, revert_results.tsv and known_findings.json."""
import glob
import json
import os
import re

V = os.path.dirname(os.path.abspath(__file__))


def seeded_table():
    rows = ["| change | written for | what it does | what it needs to show | caught by (quick tier) |", "|---|---|---|---|---|"]
    for p in sorted(glob.glob(os.path.join(V, "seeded", "*", "meta.json"))):
        m = json.load(open(p))
        rows.append("| `seeded/%s` | %s | %s | %s | %s |" % (
            m["id"], m["property"], m["change"].replace("|", "\\|"), m.get("needs_to_manifest", "").replace("|", "\\|"),
            ", ".join(m.get("caught_by_quick") or []) or "—"))
    return "\n".join(rows)


def fixes_table():
    res = {}
    rp = os.path.join(V, "revert_results.tsv")
    if os.path.exists(rp):
        for line in open(rp):
            parts = line.rstrip("\n").split("\t")
            if len(parts) >= 3:
                res.setdefault(parts[0], []).append((parts[1], parts[2]))
    rows = ["| commit in /repo | property | what failed before the fix | quick checks that fail again when this one commit is reverted |", "|---|---|---|---|"]
    for line in open(os.path.join(V, "fixes.tsv")):
        line = line.rstrip("\n")
        if not line:
            continue
        c, props, what = line.split("\t")
        r = res.get(c, [])
        caught = ", ".join("%s" % p for p, v in r if v == "caught")
        missed = ", ".join("%s" % p for p, v in r if v == "silent")
        other = "; ".join("%s" % v for p, v in r if v not in ("caught", "silent"))
        cell = caught or "—"
        if missed:
            cell += " (silent: %s)" % missed
        if other:
            cell += " (%s)" % other
        rows.append("| `%s` | %s | %s | %s |" % (c, props.split(",")[0], what.replace("|", "\\|"), cell))
    return "\n".join(rows)


def findings_table():
    d = json.load(open(os.path.join(V, "known_findings.json")))
    rows = ["| id | property | signature | what fails | witness |", "|---|---|---|---|---|"]
    for f in d["findings"]:
        rows.append("| %s | %s | `%s` | %s | `%s` |" % (f["id"], f["property"], f["sig"], f["what"].replace("|", "\\|"), f.get("witness", "")))
    return "\n".join(rows)


def main():
    p = os.path.join(V, "DESIGN.md")
    s = open(p).read()
    for name, fn in (("SEEDED", seeded_table), ("FIXES", fixes_table), ("FINDINGS", findings_table)):
        pat = re.compile(r"(<!-- BEGIN %s -->\n).*?(<!-- END %s -->)" % (name, name), re.S)
        if not pat.search(s):
            print("marker %s missing" % name)
            continue
        s = pat.sub(lambda m: m.group(1) + fn() + "\n" + m.group(2), s)
    open(p, "w").write(s)


if __name__ == "__main__":
    main()
