#!/usr/bin/env python3
"""Regenerates MANIFEST.json from props.py (single source of truth for commands)."""
import json, os, subprocess, sys
sys.path.insert(0, os.path.dirname(os.path.abspath(__file__)))
from props import PROPS, META
ALL = ["C%02d" % i for i in range(1, 21)]
hook_commits = [l.split()[0] for l in subprocess.run(["git", "-C", "/repo", "log", "--format=%h %s"], capture_output=True, text=True).stdout.splitlines() if " verif:" in l or l.split(" ", 1)[1].startswith("verif")]
m = {
    "version": 1,
    "setup_cmd": "./check --setup",
    "hooks": {
        "guard": "verif",
        "enable": "go test -c -tags verif (the ./check driver passes the tag on every build)",
        "baseline_off_cmd": "cd /repo && GOFLAGS=-mod=mod GOPROXY=off go test -vet=off -count=1 ./...",
        "source_commits": hook_commits,
        "add_only": True,
    },
    "engines": [{"name": "verifbench", "path": "harness/", "serves_properties": [p for p in ALL if p in PROPS],
                 "kind_free_text": "Go property-based harness (pgregory.net/rapid v1.3.0 + native go fuzzing) overlaid as connectrpc.com/vanguard/internal/verifbench and compiled against /repo's working tree; driver ./check"}],
    "checks": [],
    "not_applicable": [],
    "notes": "Every property is decided by generated-input search against an explicit oracle (see DESIGN.md). Known findings: known_findings.json.",
}
for pid in ALL:
    if pid not in PROPS:
        m["not_applicable"].append({"property_id": pid, "reason": META.get(pid, {}).get("na_reason", "check not built yet in this session; no claim is made")})
        continue
    meta = META[pid]
    m["checks"].append({
        "property_id": pid,
        "quick_cmd": "./check %s quick" % pid,
        "thorough_cmd": "./check %s thorough" % pid,
        "evidence_file": "/verif/evidence/%s.json" % pid,
        "replay_cmd_template": "./check %s --replay {path}" % pid,
        "engine": "verifbench",
        "level_claimed": {"category": PROPS[pid]["level"], "text": meta["level_text"], "design_ref": meta.get("design_ref", "DESIGN.md section 4, " + pid)},
        "level_note": meta["level_note"],
        "technique": meta["technique"],
    })
json.dump(m, open(os.path.join(os.path.dirname(os.path.abspath(__file__)), "MANIFEST.json"), "w"), indent=1)
print("MANIFEST.json: %d checks, %d not_applicable" % (len(m["checks"]), len(m["not_applicable"])))
