# Per-property parameters for ./check (counts sized per DESIGN.md section 4).
def P(test, level, quick, thorough, **kw):
    d = {"test": test, "level": level, "quick": quick, "thorough": thorough}
    d.update(kw)
    return d

COMMON_ASSUME = [
    "Go runtime, net/http, compress/gzip, google.golang.org/protobuf (proto, protojson, dynamicpb) and rapid are trusted",
    "the harness's reference wire layer (written from the Connect, gRPC, gRPC-Web and google.api.http specifications) is the executable reading of the protocols",
    "in-memory driver: requests built by http.ReadRequest, responses recorded by a ResponseWriter that mimics net/http header/trailer semantics",
]

PROPS = {
    "C01": P("TestC01", "exploration",
             {"checks": 6000, "timeout": 300},
             {"checks": 25000, "shards": 16, "timeout": 1500},
             assumptions=COMMON_ASSUME),
    "C02": P("TestC02", "exploration",
             {"checks": 6000, "timeout": 300},
             {"checks": 25000, "shards": 16, "timeout": 1500},
             assumptions=COMMON_ASSUME),
    "C03": P("TestC03", "exploration",
             {"checks": 6000, "timeout": 300},
             {"checks": 25000, "shards": 16, "timeout": 1500},
             assumptions=COMMON_ASSUME),
    "C04": P("TestC04", "exploration",
             {"checks": 8000, "timeout": 300},
             {"checks": 30000, "shards": 16, "timeout": 1800},
             assumptions=COMMON_ASSUME),
    "C05": P("TestC05", "exploration",
             {"checks": 8000, "timeout": 300},
             {"checks": 30000, "shards": 16, "timeout": 1800},
             assumptions=COMMON_ASSUME),
    "C08": P("TestC08", "exploration",
             {"checks": 5000, "timeout": 300},
             {"checks": 20000, "shards": 16, "timeout": 1800},
             assumptions=COMMON_ASSUME),
    "C09": P("TestC09", "fault_enumeration",
             {"checks": 6000, "timeout": 300},
             {"checks": 25000, "shards": 16, "timeout": 1800},
             assumptions=COMMON_ASSUME),
    "C12": P("TestC12", "exploration",
             {"checks": 30000, "timeout": 300},
             {"checks": 100000, "shards": 16, "timeout": 1800},
             assumptions=COMMON_ASSUME),
    "C13": P("TestC13", "exploration",
             {"checks": 8000, "timeout": 300},
             {"checks": 30000, "shards": 16, "timeout": 1800},
             assumptions=COMMON_ASSUME),
    "C18": P("TestC18", "exploration",
             {"checks": 8000, "timeout": 300},
             {"checks": 30000, "shards": 16, "timeout": 1800},
             assumptions=COMMON_ASSUME),
    "C11": P("TestC11", "exploration",
             {"checks": 10000, "timeout": 300},
             {"checks": 40000, "shards": 16, "timeout": 1800},
             assumptions=COMMON_ASSUME),
    "C19": P("TestC19", "exploration",
             {"checks": 6000, "timeout": 300},
             {"checks": 20000, "shards": 16, "timeout": 1800},
             assumptions=COMMON_ASSUME),
    "C06": P("TestC06", "exploration",
             {"checks": 6000, "timeout": 300},
             {"checks": 25000, "shards": 16, "timeout": 1800},
             assumptions=COMMON_ASSUME),
    "C07": P("TestC07", "exploration",
             {"checks": 6000, "timeout": 300},
             {"checks": 25000, "shards": 16, "timeout": 1800},
             assumptions=COMMON_ASSUME),
    "C17": P("TestC17", "exploration",
             {"checks": 3000, "timeout": 300},
             {"checks": 12000, "shards": 16, "timeout": 1800},
             assumptions=COMMON_ASSUME),
    "C15": P("TestC15", "exploration",
             {"checks": 1500, "timeout": 400, "gomaxprocs": 1},
             {"checks": 5000, "shards": 16, "timeout": 1800, "gomaxprocs": 1},
             assumptions=COMMON_ASSUME),
}

TRUST = "Trusted base: Go runtime, net/http, compress/*, google.golang.org/protobuf, rapid, and the harness's own reference wire layer as the reading of the protocol specs. Generated search: absence of violations is evidence over the explored cases only."

META = {
    "C01": {
        "technique": "property-based testing (rapid): generated scenarios through the real Transcoder, independent reference encoders/decoders on both sides as oracle",
        "level_text": "Generated exploration of client form x config x codec x compression x message content; every delivered message is compared field-for-field (deterministic binary form) with what the other side sent; thorough runs 16 shards.",
        "level_note": TRUST,
    },
    "C02": {
        "technique": "property-based testing (rapid): generated configs x client requests; strict per-protocol request validator and negotiation rules as oracle at the backend handler",
        "level_text": "Generated exploration over all 15 target-protocol subsets, codec lists and compression lists; every request reaching the handler is parsed by a validator written from the protocol specs and compared with the negotiation rules of the statement.",
        "level_note": TRUST,
    },
    "C03": {
        "technique": "property-based testing (rapid): generated backend scripts and failing requests; strict per-client-form response validator (status, content-type, envelopes, compression, Content-Length, single terminal disposition) as oracle",
        "level_text": "Generated exploration of backend outcomes (OK, error after k messages, trailers-only, bare HTTP status) and of transcoder-originated failures, for all six client forms; every response is parsed by a validator written from the protocol specs.",
        "level_note": TRUST,
    },
    "C04": {
        "technique": 'property-based testing (rapid): generated error specs and bare HTTP failures relayed through the real Transcoder; independent code tables and per-protocol error parsers as oracle',
        "level_text": 'Generated exploration of codes (in and out of range), UTF-8 messages, typed details, positions and bare HTTP statuses across all client forms and target configurations; the client-side parse must equal the backend script and the independently written HTTP<->RPC tables.',
        "level_note": TRUST,
    },
    "C05": {
        "technique": 'property-based testing (rapid): generated header/trailer sets relayed through the real Transcoder; per-name ordered multi-value equality and status-key leak check as oracle',
        "level_text": 'Generated exploration of metadata sets (random-case names, multi-values, -bin values, names on both sides, both trailer styles) over success, error and trailers-only outcomes and all client forms / target configurations.',
        "level_note": TRUST,
    },
    "C08": {
        "technique": 'property-based testing (rapid), metamorphic: the same scenario under a generated read/write/flush segmentation must give the handler the same request bytes and the client the same canonical outcome as the unsegmented run',
        "level_text": 'Generated exploration of segmentations (1-byte reads and writes, handler buffers of 1-8 bytes, cuts inside envelope prefixes and payloads, empty writes, interleaved flushes) over every adapter path; the relation to the single-read/single-write run is the oracle, and that baseline run is itself judged by C01-C03.',
        "level_note": TRUST,
    },
    "C09": {
        "technique": 'fault injection over generated exchanges (rapid): one wire-level fault per case on request or response bytes; reference decoder decides which faulty streams must fail; client outcome, response well-formedness and backend-observed messages are checked',
        "level_text": 'Fault enumeration: cut points, every kind of flag value, length and content-length misstatement, bit flips, undecodable payloads, missing status and trailing data, on both directions of every pairing; thorough adds exhaustive cut points/flag values for fixed small streams.',
        "level_note": TRUST,
    },
    "C12": {
        "technique": 'property-based testing (rapid): generated timeout header strings (boundary grids per encoding, malformed and none) through the real Transcoder; exact big-rational comparison of client and backend deadlines with an independent grammar per target encoding',
        "level_text": 'Generated exploration of every digit count and unit of the three timeout encodings across all client forms and target protocols; never-extended, shortfall below the target unit, absent-stays-absent and malformed-rejected-before-dispatch are asserted with exact arithmetic.',
        "level_note": TRUST,
    },
    "C13": {
        "technique": "property-based testing (rapid): generated pass-through and unknown-endpoint requests; field-by-field snapshot comparison of the request given to ServeHTTP with what the downstream handler observed, and of the handler's response with what the client's writer received",
        "level_text": 'Generated exploration of requests that need no conversion and of unmatched paths, with control headers of every protocol, query strings, arbitrary bodies, declared/undeclared lengths and HTTP versions; identity of request and response across the transcoder is the oracle.',
        "level_note": TRUST,
    },
    "C18": {
        "technique": 'property-based testing (rapid): generated requests of every rejection class and exit path; instrumented handlers (invocation counters, captured context) and gated request body / response writer (calls after return) as oracle',
        "level_text": 'Generated exploration of rejection classes (before and after method resolution) and exit paths (success, pass-through, unknown handler, set-up error, mid-stream error, handler panic); dispatch counts, context cancellation and absence of late I/O are asserted on every case.',
        "level_note": TRUST,
    },
    "C11": {
        "technique": 'property-based testing (rapid) with hostile structured mutations and raw bytes on both client and backend side; recovered panics attributed by stack frame, watchdog on return, recording ResponseWriter counting response heads and checking Content-Length; thorough adds native coverage-guided fuzzing of the request and response bytes',
        "level_text": 'Robustness exploration: arbitrary methods, paths, queries, headers and bodies from the client and arbitrary status, headers, grpc-status texts, bodies, write patterns, late writes and panics from the backend; the only assertions are no crash in vanguard, termination, and a frameable response head/body.',
        "level_note": TRUST,
    },
    "C19": {
        "technique": 'property-based testing (rapid): generated GET requests over methods of every idempotency level, codecs with and without stable encoding, and a metamorphic limit triple (observed URL length -1/0/+1); the GET/POST decision rule of the statement and an independent Connect-GET query decoder as oracle',
        "level_text": 'Generated exploration of inbound Connect GET handling (405+Allow vs decode-equals-POST) and of the outbound GET/POST decision toward Connect backends, with the URL-length limit placed exactly at the boundary learned from a first run.',
        "level_note": TRUST,
    },
    "C06": {
        "technique": 'property-based testing (rapid): generated route tables (template grammar) and request paths through the real ServeHTTP; independent three-valued reference matcher over the raw path as oracle, plus metamorphic re-registration in permuted order',
        "level_text": 'Generated exploration of overlapping route tables and of request paths with every reserved character in several valid escapings, structural mutations and RPC-style paths; dispatch target, captured values, 404/405+Allow, literal precedence and order independence are asserted against a reference matcher written from http.proto.',
        "level_note": TRUST,
    },
    "C07": {
        "technique": 'property-based testing (rapid): generated HTTP rules and messages; reference renderer and reference binder (body, then path variables, then query) written from google/api/http.proto as oracle, plus the pure round trip RPC->REST->RPC through two chained transcoders',
        "level_text": 'Generated exploration of rule shapes (body/response_body selectors of every field category, variables of every scalar kind) and of messages, REST requests rendered in several valid styles, overrides, misfits and unknown parameters; binding, inverse rendering and the chained identity are asserted.',
        "level_note": TRUST,
    },
    "C17": {
        "technique": 'property-based testing (rapid): generated configurations from valid building blocks with at most one injected defect of a listed category; three-valued servable() expectation (defect => reject with nil transcoder, valid blocks => accept) and, for accepted configurations, probes through the real ServeHTTP for reachability of every binding, exact selector binding and option override',
        "level_text": 'Generated exploration of NewTranscoder inputs (service pools, protocol/codec/compression sets, defaults vs overrides, rule sets with 24 defect categories) with the accept/reject expectation known by construction, plus behavioural probes of every accepted configuration.',
        "level_note": TRUST,
    },
    "C15": {
        "technique": 'model-based / stateful property-based testing (rapid): generated histories of earlier RPCs on one long-lived Transcoder, probe compared with a fresh Transcoder after every step (differential), with an instrumented deterministic poisoning buffer pool (tag verif) and with the regular sync.Pool',
        "level_text": 'Generated exploration of operation sequences (valid, rejected, cut, oversized, corrupt-compressed requests; panicking and protocol-violating backends) against one Transcoder; outcome equality with a fresh Transcoder and pool bookkeeping (double release, live reuse, write after release) are the invariants checked after every step.',
        "level_note": TRUST,
    },
}
